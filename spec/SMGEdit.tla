------------------------------ MODULE SMGEdit ------------------------------
(***************************************************************************)
(* Reference semantics of every public operation of the four graph         *)
(* classes, written ONCE as a function                                     *)
(*                                                                         *)
(*      Outcomes(g, h, op)  =  set of allowed outcomes                     *)
(*                                                                         *)
(* g is the receiver, h a second operand (compose), op a record.  An       *)
(* outcome is [out, ans, g, res]: out \in {"ok","raise","ans"}, ans the    *)
(* answer of a query, g the receiver afterwards, res a derived graph.      *)
(* Behaviour no property pins is an explicit set of several outcomes.      *)
(* The state machine (MC_Edit) and the trace specification (Trace_Edit)    *)
(* both use this one definition.                                           *)
(***************************************************************************)
EXTENDS SMGGraph

(* ------------------------------ op records ------------------------------- *)
NoMap == <<>>
BaseOp == [name |-> "", a |-> 0, b |-> 0, e |-> 0, k |-> "", v |-> 0,
           d |-> NoD, db |-> NoD, dl |-> NoD, df |-> NoD,
           m |-> NoMap, S |-> {}, ch |-> "", tk |-> "", flag |-> FALSE]

NoAns == [t |-> "none", b |-> FALSE, i |-> 0, s |-> {}, d |-> NoD, c |-> Emp]
ABool(x)  == [NoAns EXCEPT !.t = "bool", !.b = x]
AInt(x)   == [NoAns EXCEPT !.t = "int", !.i = x]
AIds(x)   == [NoAns EXCEPT !.t = "ids", !.s = x]
ADescr(x) == [NoAns EXCEPT !.t = "descr", !.d = x]
AChg(x)   == [NoAns EXCEPT !.t = "chg", !.c = x]
AAny      == [NoAns EXCEPT !.t = "any"]

Out(o, a, g, r) == [out |-> o, ans |-> a, g |-> g, res |-> r]
OK(g)     == Out("ok", NoAns, g, NoGraph)
RAISE(g)  == Out("raise", NoAns, g, NoGraph)
ANS(g, a) == Out("ans", a, g, NoGraph)
RES(g, r) == Out("ok", NoAns, g, r)

ValidEl(e) == e \in 1..118
Attrs(k, v) == IF k = "" THEN Emp ELSE [x \in {k} |-> v]
BondKey(a, b) == {a, b}
HasBond(g, a, b) == a # b /\ {a, b} \in Bonds(g)

(* lookups about absent things: raise or answer negatively, state unchanged *)
Negative(g) == { RAISE(g), ANS(g, NoAns), ANS(g, ABool(FALSE)), ANS(g, AIds({})) }

Given(op) == { c \in Changes : (CASE c = "broken" -> op.db [] c = "fleeting" -> op.dl [] c = "formed" -> op.df) # NoD }
GivenD(op, c) == CASE c = "broken" -> op.db [] c = "fleeting" -> op.dl [] c = "formed" -> op.df

DropEntry(f, k, c) ==      \* remove change c of key k; an emptied entry disappears
   IF DOMAIN f[k] = {c} THEN Drop(f, {k}) ELSE [f EXCEPT ![k] = Drop(@, {c})]

StripAttrs(g) == [g EXCEPT !.aat = [a \in DOMAIN @ |-> Emp],
                           !.bd = [b \in DOMAIN @ |-> [role |-> @[b].role, at |-> Emp]]]

Dangling(g) == ~(DescrIds(g.ast) \cup DescrIds(g.bst) \cup ChangeIds(g.ach) \cup ChangeIds(g.bch)
                   \cup UNION (DOMAIN g.bst) \cup UNION (DOMAIN g.bch) \subseteq Atoms(g))
               \/ ~(DOMAIN g.bst \cup DOMAIN g.bch \subseteq Bonds(g))

(* a bond stereo change recorded for a side of the reaction on which the bond does
   not exist: reactant()/product() (hence ==, hash) may refuse such a graph *)
IllFormedSides(g) ==
   \E b \in DOMAIN g.bch :
      \/ "broken" \in DOMAIN g.bch[b] /\ ~(b \in Bonds(g) /\ g.bd[b].role \in {"none", "broken"})
      \/ "formed" \in DOMAIN g.bch[b] /\ ~(b \in Bonds(g) /\ g.bd[b].role \in {"none", "formed"})
      \/ "fleeting" \in DOMAIN g.bch[b] /\ b \notin Bonds(g)

Repeats(d) == \E i, j \in DOMAIN d.atoms : i < j /\ d.atoms[i] = d.atoms[j] /\ d.atoms[i] # NoAtom
HasRepeats(g) == \/ \E k1 \in DOMAIN g.ast : Repeats(g.ast[k1])
                 \/ \E k2 \in DOMAIN g.bst : Repeats(g.bst[k2])
HasPlaceholder(g) == \/ \E k \in DOMAIN g.ast : Mentions(g.ast[k], NoAtom)
                     \/ \E k \in DOMAIN g.bst : Mentions(g.bst[k], NoAtom)

(* a copy whose least atom got another element and attribute q = 8 and whose
   least bond got attribute w = 8 (so that compose sees conflicting pieces) *)
LeastBond(B) == CHOOSE b \in B : \A c \in B : Enc(SortedPair(b)) <= Enc(SortedPair(c))
Modified(g) ==
   LET g1 == IF Atoms(g) = {} THEN g
             ELSE LET a == CHOOSE x \in Atoms(g) : \A y \in Atoms(g) : x <= y IN
                  [g EXCEPT !.el[a] = IF @ = 6 THEN 1 ELSE 6, !.aat[a] = Put(@, "q", 8)]
   IN IF Bonds(g) = {} THEN g1
      ELSE [g1 EXCEPT !.bd[LeastBond(Bonds(g))].at = Put(@, "w", 8)]

AtomCollision(g, m) == \E x, y \in Atoms(g) : x # y /\ Ren(m, x) = Ren(m, y)

(* ------------------------------------------------------------------------ *)
Outcomes(g, h, op) ==
  LET a == op.a  b == op.b  k == op.k  v == op.v  n == op.name IN
  CASE n = "add_atom" ->
         IF ~ValidEl(op.e) THEN { RAISE(g) }
         ELSE LET g2 == [g EXCEPT !.el = Put(@, a, op.e), !.aat = Put(@, a, Attrs(k, v))]
              IN IF a \notin Atoms(g) THEN { OK(g2) } ELSE { RAISE(g), OK(g2) }
    [] n = "remove_atom" ->
         IF a \in Atoms(g) THEN { OK(RemoveAtom(g, a)), OK(RemoveAtomWhole(g, a)) } ELSE { RAISE(g) }
    [] n \in {"add_bond", "add_formed_bond", "add_broken_bond", "add_fleeting_bond"} ->
         LET role == CASE n = "add_bond" -> op.ch [] n = "add_formed_bond" -> "formed"
                       [] n = "add_broken_bond" -> "broken" [] n = "add_fleeting_bond" -> "fleeting"
             g2 == [g EXCEPT !.bd = Put(@, {a, b}, [role |-> role, at |-> Attrs(k, v)])]
         IN IF a \notin Atoms(g) \/ b \notin Atoms(g) \/ a = b THEN { RAISE(g) }
            ELSE IF {a, b} \notin Bonds(g) THEN { OK(g2) } ELSE { RAISE(g), OK(g2) }
    [] n \in {"add_bond_badrole", "set_bond_badrole", "add_formed_badrole", "add_broken_badrole", "add_fleeting_badrole"} ->
         { RAISE(g) }         \* a reaction label of the wrong type, through whichever door
    [] n = "bonds_from_matrix" ->      \* bonds_from_bond_order_matrix: op.S = codes 10*lo+hi of the pairs with an entry above
         \* the threshold (rows / columns in the order of the atoms), op.flag = the matrix also has a diagonal entry.
         \* Existing bonds may be re-added (attributes replaced, as add_bond does) or left alone; a diagonal entry is
         \* either ignored or refused - but a refusal has to leave the graph as it was.
         LET prs == { {c \div 10, c % 10} : c \in op.S }
             plain == [role |-> "none", at |-> Emp]
             g2 == [g EXCEPT !.bd = [x \in DOMAIN @ \cup prs |-> IF x \in prs THEN plain ELSE @[x]]]
             g3 == [g EXCEPT !.bd = [x \in DOMAIN @ \cup prs |-> IF x \in DOMAIN @ THEN @[x] ELSE plain]]
         IN IF ~(UNION prs \subseteq Atoms(g)) THEN { RAISE(g) }
            ELSE IF op.flag THEN { RAISE(g), OK(g2), OK(g3) } ELSE { OK(g2), OK(g3) }
    [] n = "remove_bond" ->
         IF HasBond(g, a, b)
           THEN { OK([g EXCEPT !.bd = Drop(@, {{a, b}})]),
                  OK([g EXCEPT !.bd = Drop(@, {{a, b}}), !.bst = Drop(@, {{a, b}}), !.bch = Drop(@, {{a, b}})]) }
           ELSE { RAISE(g) }
    [] n = "set_atom_attr" ->
         IF a \notin Atoms(g) THEN { RAISE(g) }
         ELSE IF k = "atom_type"
           THEN IF ValidEl(v) THEN { OK([g EXCEPT !.el[a] = v]) } ELSE { RAISE(g) }
           ELSE { OK([g EXCEPT !.aat[a] = Put(@, k, v)]) }
    [] n = "del_atom_attr" ->
         IF k = "atom_type" \/ a \notin Atoms(g) THEN { RAISE(g) }
         ELSE IF k \in DOMAIN g.aat[a] THEN { OK([g EXCEPT !.aat[a] = Drop(@, {k})]) }
         ELSE { RAISE(g), OK(g) }
    [] n = "set_bond_attr" ->
         IF ~HasBond(g, a, b) THEN { RAISE(g) }
         ELSE { OK([g EXCEPT !.bd[{a, b}].at = Put(@, k, v)]) }
    [] n = "set_bond_role" ->          \* set_bond_attribute(a, b, "reaction", Change.X)
         IF ~HasBond(g, a, b) THEN { RAISE(g) }
         ELSE { OK([g EXCEPT !.bd[{a, b}].role = op.ch]) }
    [] n = "del_bond_attr" ->
         IF ~HasBond(g, a, b) THEN { RAISE(g) }
         ELSE IF k \in DOMAIN g.bd[{a, b}].at THEN { OK([g EXCEPT !.bd[{a, b}].at = Drop(@, {k})]) }
         ELSE { RAISE(g), OK(g) }
    [] n = "del_bond_role" ->          \* delete_bond_attribute(a, b, "reaction")
         IF ~HasBond(g, a, b) THEN { RAISE(g) }
         ELSE IF g.bd[{a, b}].role # "none" THEN { OK([g EXCEPT !.bd[{a, b}].role = "none"]) }
         ELSE { RAISE(g), OK(g) }
    [] n = "set_atom_stereo" ->
         IF Centre(op.d) \in Atoms(g) THEN { OK([g EXCEPT !.ast = Put(@, Centre(op.d), op.d)]) }
         ELSE { RAISE(g) }
    [] n = "del_atom_stereo" ->
         IF a \in DOMAIN g.ast THEN { OK([g EXCEPT !.ast = Drop(@, {a})]) } ELSE { RAISE(g), OK(g) }
    [] n = "set_bond_stereo" ->
         IF BondOf(op.d) \in Bonds(g) THEN { OK([g EXCEPT !.bst = Put(@, BondOf(op.d), op.d)]) }
         ELSE { RAISE(g) }
    [] n = "del_bond_stereo" ->
         IF {a, b} \in DOMAIN g.bst THEN { OK([g EXCEPT !.bst = Drop(@, {{a, b}})]) } ELSE { RAISE(g), OK(g) }
    [] n = "set_atom_stereo_change" ->
         LET cs == { Centre(GivenD(op, c)) : c \in Given(op) } IN
         IF Cardinality(cs) # 1 THEN { RAISE(g) }
         ELSE LET c0 == CHOOSE x \in cs : TRUE IN
              IF c0 \notin Atoms(g) THEN { RAISE(g) }
              ELSE { OK([g EXCEPT !.ach = Put(@, c0, [c \in Given(op) |-> GivenD(op, c)])]) }
    [] n = "set_bond_stereo_change" ->
         LET cs == { BondOf(GivenD(op, c)) : c \in Given(op) } IN
         IF Cardinality(cs) # 1 THEN { RAISE(g) }
         ELSE LET b0 == CHOOSE x \in cs : TRUE IN
              IF b0 \notin Bonds(g) THEN { RAISE(g) }
              ELSE { OK([g EXCEPT !.bch = Put(@, b0, [c \in Given(op) |-> GivenD(op, c)])]) }
    [] n = "del_atom_stereo_change" ->
         IF op.ch = ""
           THEN IF a \in DOMAIN g.ach THEN { OK([g EXCEPT !.ach = Drop(@, {a})]) } ELSE { RAISE(g), OK(g) }
           ELSE IF a \in DOMAIN g.ach /\ op.ch \in DOMAIN g.ach[a]
                  THEN { OK([g EXCEPT !.ach = DropEntry(@, a, op.ch)]) } ELSE { RAISE(g), OK(g) }
    [] n = "del_bond_stereo_change" ->
         IF op.ch = ""
           THEN IF {a, b} \in DOMAIN g.bch THEN { OK([g EXCEPT !.bch = Drop(@, {{a, b}})]) } ELSE { RAISE(g), OK(g) }
           ELSE IF {a, b} \in DOMAIN g.bch /\ op.ch \in DOMAIN g.bch[{a, b}]
                  THEN { OK([g EXCEPT !.bch = DropEntry(@, {a, b}, op.ch)]) } ELSE { RAISE(g), OK(g) }
    [] n = "relabel_inplace" ->      \* a mapping that sends two atoms of the graph to one label cannot be honoured
         IF AtomCollision(g, op.m) THEN { RAISE(g) }
         ELSE IF RelabelOK(g, op.m) THEN { OK(Relabel(g, op.m)) } ELSE {}
    (* ------------------------------ queries ------------------------------ *)
    [] n = "has_atom" -> { ANS(g, ABool(a \in Atoms(g))) }
    [] n = "has_bond" -> { ANS(g, ABool(HasBond(g, a, b))) }
    [] n = "n_atoms"  -> { ANS(g, AInt(Cardinality(Atoms(g)))) }
    [] n = "get_atom_type" ->
         IF a \in Atoms(g) THEN { ANS(g, AInt(g.el[a])) } ELSE Negative(g)
    [] n = "get_atom_attr" ->
         IF a \notin Atoms(g) THEN Negative(g)
         ELSE IF k = "atom_type" THEN { ANS(g, AInt(g.el[a])) }
         ELSE IF k \in DOMAIN g.aat[a] THEN { ANS(g, AInt(g.aat[a][k])) } ELSE { ANS(g, NoAns) }
    [] n = "get_bond_attr" ->
         IF ~HasBond(g, a, b) THEN Negative(g)
         ELSE IF k \in DOMAIN g.bd[{a, b}].at THEN { ANS(g, AInt(g.bd[{a, b}].at[k])) } ELSE { ANS(g, NoAns) }
    [] n = "bonded_to" ->
         IF a \in Atoms(g) THEN { ANS(g, AIds(Nbrs(g, a))) } ELSE Negative(g)
    [] n = "component_of" ->
         IF a \in Atoms(g) THEN { ANS(g, AIds(ReachFrom(g, {a}))) } ELSE { RAISE(g), ANS(g, AAny) }
    [] n = "n_components" -> { ANS(g, AInt(Cardinality(Components(g)))) }
    \* get_formed_bonds / get_broken_bonds / get_fleeting_bonds: the atoms at their ends (flag: their number instead);
    \* no arithmetic on identifiers, which are arbitrary integers in recorded histories
    [] n = "role_bonds" ->
         IF ~HasRoles(g.kind) THEN {}
         ELSE IF op.flag THEN { ANS(g, AInt(Cardinality(RoleBonds(g, op.ch)))) }
         ELSE { ANS(g, AIds(UNION RoleBonds(g, op.ch))) }
    [] n = "active_atoms" ->       \* op.flag: one additional layer of neighbours
         LET core == ActiveCore(g)
             lay  == IF op.flag THEN core \cup UNION { Nbrs(g, x) : x \in core } ELSE core
             ph   == HasChanges(g.kind) /\ (\/ (\E k1 \in DOMAIN g.ach : \E c1 \in DOMAIN g.ach[k1] : Mentions(g.ach[k1][c1], NoAtom))
                                             \/ (\E k2 \in DOMAIN g.bch : \E c2 \in DOMAIN g.bch[k2] : Mentions(g.bch[k2][c2], NoAtom)))
         IN IF ~HasRoles(g.kind) THEN {}
            ELSE IF core \subseteq Atoms(g) /\ ~ph THEN { ANS(g, AIds(lay)) }
            \* no property says whether a lone-pair placeholder or a vanished atom is "active"
            ELSE { ANS(g, AIds(lay)), ANS(g, AIds(lay \cup {NoAtom})), ANS(g, AAny), RAISE(g) }
    [] n = "get_atom_stereo" ->
         IF a \notin Atoms(g) THEN Negative(g)
         ELSE IF a \in DOMAIN g.ast THEN { ANS(g, ADescr(g.ast[a])) } ELSE { ANS(g, NoAns) }
    [] n = "get_bond_stereo" ->
         IF {a, b} \in DOMAIN g.bst
           THEN IF HasBond(g, a, b) THEN { ANS(g, ADescr(g.bst[{a, b}])) }
                ELSE { ANS(g, ADescr(g.bst[{a, b}])), RAISE(g), ANS(g, NoAns) }
           ELSE IF HasBond(g, a, b) THEN { ANS(g, NoAns) } ELSE Negative(g)
    [] n = "get_atom_stereo_change" ->
         IF a \notin Atoms(g) THEN Negative(g)
         ELSE IF a \in DOMAIN g.ach THEN { ANS(g, AChg(g.ach[a])) } ELSE { ANS(g, NoAns), ANS(g, AChg(Emp)) }
    [] n = "get_bond_stereo_change" ->
         IF ~HasBond(g, a, b) THEN Negative(g)
         ELSE IF {a, b} \in DOMAIN g.bch THEN { ANS(g, AChg(g.bch[{a, b}])) } ELSE { ANS(g, NoAns), ANS(g, AChg(Emp)) }
    [] n = "is_stereo_valid" ->      \* no property says whether a lone-pair placeholder needs a bond, nor what a
                                     \* descriptor naming one atom twice (only random histories write such) is worth
         IF HasPlaceholder(g) \/ HasRepeats(g) THEN { ANS(g, ABool(TRUE)), ANS(g, ABool(FALSE)) }
         ELSE { ANS(g, ABool(StereoValid(g))) }
    [] n \in {"eq_self", "eq_copy"} ->   \* a descriptor naming something that is not an atom: may refuse
         IF Dangling(g) \/ IllFormedSides(g) THEN { ANS(g, ABool(TRUE)), RAISE(g) } ELSE { ANS(g, ABool(TRUE)) }
    [] n = "hash" -> IF Dangling(g) \/ IllFormedSides(g) THEN { ANS(g, AAny), RAISE(g) } ELSE { ANS(g, AAny) }
    [] n \in {"str", "to_json", "to_rdmol"} -> { ANS(g, AAny), RAISE(g) }
    (* ---------------------------- derivations ---------------------------- *)
    [] n = "copy" -> { RES(g, g) }
    [] n = "json_roundtrip" ->         \* the JSON format carries no free attributes: kept or dropped
         { RES(g, g), RES(g, StripAttrs(g)) } \cup
         (IF Dangling(g) THEN { RAISE(g) } ELSE {}) \cup   \* a descriptor over a missing atom / bond may be refused
         (IF HasRoles(g.kind) THEN {}      \* on a plain (stereo) molecule graph a role is just an attribute
          ELSE { RES(g, [StripAttrs(g) EXCEPT !.bd = [bb \in DOMAIN @ |-> [role |-> "none", at |-> Emp]]]) })
    [] n = "copy_ctor" -> { RES(g, Convert(g, op.tk)) }
    [] n = "copy_mod" -> { RES(g, Modified(g)) }   \* copy, then edit the copy (harness composite)
    [] n = "relabel_copy" ->
         IF AtomCollision(g, op.m) THEN { RAISE(g) }
         ELSE IF RelabelOK(g, op.m) THEN { RES(g, Relabel(g, op.m)) } ELSE {}
    [] n = "subgraph" ->
         IF op.S \subseteq Atoms(g) THEN { RES(g, Subgraph(g, op.S)) }
         ELSE { RAISE(g), RES(g, Subgraph(g, op.S \cap Atoms(g))) }
    [] n = "enantiomer" -> { RES(g, Enantiomer(g)) }
    [] n = "reverse"  -> { RES(g, Reverse(g, TRUE)), RES(g, Reverse(g, FALSE)) }
                         \cup (IF Dangling(g) THEN { RAISE(g) } ELSE {})
    [] n = "reactant" -> { RES(g, Reactant(g, op.flag)) } \cup (IF IllFormedSides(g) THEN { RAISE(g) } ELSE {})
    [] n = "product"  -> { RES(g, Product(g, op.flag)) } \cup (IF IllFormedSides(g) THEN { RAISE(g) } ELSE {})
    [] n = "compose"  -> { RES(g, Compose(<<g, h>>, op.tk, TRUE)), RES(g, Compose(<<g, h>>, op.tk, FALSE)) }
    [] n = "compose_components" ->     \* compose of the component subgraphs
         LET cs == Components(g)
             sq == SetToSeqG({ Subgraph(g, c) : c \in cs })
         IN { RES(g, Compose(sq, g.kind, TRUE)) }
    [] OTHER -> {}

Mutators == {"add_atom", "remove_atom", "add_bond", "add_formed_bond", "add_broken_bond",
             "add_fleeting_bond", "add_bond_badrole", "set_bond_badrole", "add_formed_badrole", "add_broken_badrole",
             "add_fleeting_badrole", "bonds_from_matrix", "remove_bond",
             "set_atom_attr", "del_atom_attr", "set_bond_attr", "set_bond_role", "del_bond_attr",
             "del_bond_role", "set_atom_stereo", "del_atom_stereo", "set_bond_stereo",
             "del_bond_stereo", "set_atom_stereo_change", "set_bond_stereo_change",
             "del_atom_stereo_change", "del_bond_stereo_change", "relabel_inplace"}
Queries == {"has_atom", "has_bond", "n_atoms", "get_atom_type", "get_atom_attr", "get_bond_attr",
            "bonded_to", "component_of", "n_components", "role_bonds", "active_atoms",
            "get_atom_stereo", "get_bond_stereo",
            "get_atom_stereo_change", "get_bond_stereo_change", "is_stereo_valid",
            "eq_self", "eq_copy", "hash", "str", "to_json", "to_rdmol"}
Derivers == {"copy", "json_roundtrip", "copy_ctor", "copy_mod", "relabel_copy", "subgraph", "enantiomer",
             "reverse", "reactant", "product", "compose", "compose_components"}

(* properties of the semantics itself, checked by TLC in MC_Edit *)
RejectedAtomic(g, h, op) == \A o \in Outcomes(g, h, op) : o.out = "raise" => o.g = g
QueriesPure(g, h, op) == op.name \in Queries \cup Derivers => \A o \in Outcomes(g, h, op) : o.g = g
=============================================================================
