INIT Init
NEXT Next
