------------------------------ MODULE SMGFigures ------------------------------
(***************************************************************************)
(* Stereodescriptor theory from first principles.                          *)
(*                                                                         *)
(* Every descriptor class is DEFINED by its idealised coordination figure  *)
(* with integer coordinates.  The symmetry group of a class is DERIVED     *)
(* from that geometry (distance preserving permutations of the positions;  *)
(* proper ones preserve every orientation determinant, improper ones       *)
(* negate every one).  Nothing here is copied from the implementation's    *)
(* permutation tables.                                                     *)
(*                                                                         *)
(* Positions are 1-based here (TLA+ sequences); the implementation is      *)
(* 0-based.  A descriptor is [cls, atoms, par]; par \in {-1,0,1,NoPar}.    *)
(***************************************************************************)
EXTENDS Integers, Sequences, FiniteSets, TLC

NoPar  == 2              \* "parity is None"
NoAtom == -999999999     \* "None" inside an atom tuple (lone pair placeholder)

Classes == {"Tetrahedral", "SquarePlanar", "TrigonalBipyramidal",
            "Octahedral", "PlanarBond", "AtropBond"}
AtomClasses == {"Tetrahedral", "SquarePlanar", "TrigonalBipyramidal", "Octahedral"}
BondClasses == {"PlanarBond", "AtropBond"}

(* position -> integer point; centre / bond atoms included *)
Figure(c) ==
  CASE c = "Tetrahedral" ->
         << <<0,0,0>>, <<1,1,1>>, <<1,-1,-1>>, <<-1,1,-1>>, <<-1,-1,1>> >>
    [] c = "SquarePlanar" ->
         << <<0,0,0>>, <<1,0,0>>, <<0,1,0>>, <<-1,0,0>>, <<0,-1,0>> >>
    [] c = "TrigonalBipyramidal" ->
         << <<0,0,0>>, <<1,1,1>>, <<-1,-1,-1>>, <<1,-1,0>>, <<0,1,-1>>, <<-1,0,1>> >>
    [] c = "Octahedral" ->
         << <<0,0,0>>, <<0,0,1>>, <<0,0,-1>>, <<1,0,0>>, <<0,1,0>>, <<-1,0,0>>, <<0,-1,0>> >>
    [] c = "PlanarBond" ->
         << <<-2,1,0>>, <<-2,-1,0>>, <<-1,0,0>>, <<1,0,0>>, <<2,1,0>>, <<2,-1,0>> >>
    [] c = "AtropBond" ->
         << <<-2,0,1>>, <<-2,0,-1>>, <<-1,0,0>>, <<1,0,0>>, <<2,-1,0>>, <<2,1,0>> >>

Arity(c) == Len(Figure(c))

(* parities a descriptor of the class may carry when it is specified *)
ClassParities(c) == IF c \in {"SquarePlanar", "PlanarBond"} THEN {0} ELSE {1, -1}

Sub(p, q) == << p[1]-q[1], p[2]-q[2], p[3]-q[3] >>
Dot(p, q) == p[1]*q[1] + p[2]*q[2] + p[3]*q[3]
D2(p, q)  == Dot(Sub(p,q), Sub(p,q))
Det3(a, b, c) ==   a[1]*(b[2]*c[3] - b[3]*c[2])
                 - a[2]*(b[1]*c[3] - b[3]*c[1])
                 + a[3]*(b[1]*c[2] - b[2]*c[1])
Sign(x) == IF x > 0 THEN 1 ELSE IF x < 0 THEN -1 ELSE 0

(* orientation of the ordered position quadruple in the figure F *)
Orient(F, i, j, k, l) == Sign(Det3(Sub(F[j],F[i]), Sub(F[k],F[i]), Sub(F[l],F[i])))

Perms(n) == Permutations(1..n)      \* TLC builtin: all bijections on 1..n

(* isometries of the figure, as permutations of positions *)
SymOf(F) == { pi \in Perms(Len(F)) :
                \A i, j \in 1..Len(F) : i < j => D2(F[i],F[j]) = D2(F[pi[i]],F[pi[j]]) }

Quads(n) == { q \in (1..n) \X (1..n) \X (1..n) \X (1..n) :
                q[1] < q[2] /\ q[2] < q[3] /\ q[3] < q[4] }

ProperOf(F, S) == { pi \in S : \A q \in Quads(Len(F)) :
     Orient(F, pi[q[1]], pi[q[2]], pi[q[3]], pi[q[4]]) = Orient(F, q[1], q[2], q[3], q[4]) }
ImproperOf(F, S) == { pi \in S : \A q \in Quads(Len(F)) :
     Orient(F, pi[q[1]], pi[q[2]], pi[q[3]], pi[q[4]]) = - Orient(F, q[1], q[2], q[3], q[4]) }

(* The three groups, computed once per class (TLC caches zero-arity defs) *)
SymTet == SymOf(Figure("Tetrahedral"))
SymSP  == SymOf(Figure("SquarePlanar"))
SymTBP == SymOf(Figure("TrigonalBipyramidal"))
SymOct == SymOf(Figure("Octahedral"))
SymPB  == SymOf(Figure("PlanarBond"))
SymAB  == SymOf(Figure("AtropBond"))
DerivedSym(c) == CASE c = "Tetrahedral" -> SymTet [] c = "SquarePlanar" -> SymSP
            [] c = "TrigonalBipyramidal" -> SymTBP [] c = "Octahedral" -> SymOct
            [] c = "PlanarBond" -> SymPB [] c = "AtropBond" -> SymAB

PrTet == ProperOf(Figure("Tetrahedral"), SymTet)
PrSP  == ProperOf(Figure("SquarePlanar"), SymSP)
PrTBP == ProperOf(Figure("TrigonalBipyramidal"), SymTBP)
PrOct == ProperOf(Figure("Octahedral"), SymOct)
PrPB  == ProperOf(Figure("PlanarBond"), SymPB)
PrAB  == ProperOf(Figure("AtropBond"), SymAB)
DerivedProper(c) == CASE c = "Tetrahedral" -> PrTet [] c = "SquarePlanar" -> PrSP
            [] c = "TrigonalBipyramidal" -> PrTBP [] c = "Octahedral" -> PrOct
            [] c = "PlanarBond" -> PrPB [] c = "AtropBond" -> PrAB

ImTet == ImproperOf(Figure("Tetrahedral"), SymTet)
ImSP  == ImproperOf(Figure("SquarePlanar"), SymSP)
ImTBP == ImproperOf(Figure("TrigonalBipyramidal"), SymTBP)
ImOct == ImproperOf(Figure("Octahedral"), SymOct)
ImPB  == ImproperOf(Figure("PlanarBond"), SymPB)
ImAB  == ImproperOf(Figure("AtropBond"), SymAB)
DerivedImproper(c) == CASE c = "Tetrahedral" -> ImTet [] c = "SquarePlanar" -> ImSP
            [] c = "TrigonalBipyramidal" -> ImTBP [] c = "Octahedral" -> ImOct
            [] c = "PlanarBond" -> ImPB [] c = "AtropBond" -> ImAB
=============================================================================
