------------------------------- MODULE Obs_Xyz -------------------------------
(***************************************************************************)
(* code -> spec for the XYZ round trip: record                             *)
(*   {id, els_in, els_out, n_out, pairs: [[in triple, out triple], ..]}    *)
(* where the out triple is the coordinate read back, rounded to 9          *)
(* decimals.  Accepted iff the element list is reproduced and every        *)
(* coordinate comes back within half a unit of the 8th decimal (a rounding *)
(* tie may go either way; one unit of the 9th decimal is granted for the   *)
(* binary representation of the input at magnitude 1e6).                   *)
(***************************************************************************)
EXTENDS Integers, Sequences, FiniteSets, TLC, SMGJson, Json, IOUtils

XRecs == ndJsonDeserialize(IOEnv.OBS_FILE)
NShards == 32
Abs(x) == IF x < 0 THEN -x ELSE x
IsZero(t) == t[2] = 0 /\ t[3] = 0
Close(a, b) ==           \* |a - b| <= 6e-9
   IF IsZero(a) \/ IsZero(b) \/ a[1] = b[1]
     THEN /\ Abs(a[2] - b[2]) <= 1
          /\ Abs((a[2] - b[2]) * 1000000000 + (a[3] - b[3])) <= 6
     ELSE a[2] = 0 /\ b[2] = 0 /\ a[3] + b[3] <= 6
XVerdict(o) ==
   [id |-> o.id,
    count |-> o.n_out = Len(o.els_in),
    elements |-> o.els_out = o.els_in,
    coords |-> \A k \in DOMAIN o.pairs : Close(o.pairs[k][1], o.pairs[k][2]),
    eightdec |-> \A k \in DOMAIN o.pairs : o.pairs[k][2][3] % 10 = 0]      \* an exact 8-decimal number came back
XGood(v) == v.count /\ v.elements /\ v.coords /\ v.eightdec
VARIABLES xshard, xidx
XInit == xshard = 0 /\ xidx = 0
XNext == \/ xshard = 0 /\ xshard' \in 1..NShards /\ xidx' = 0
         \/ xshard > 0 /\ xidx = 0 /\ xidx' \in { k \in 1..Len(XRecs) : (k % NShards) + 1 = xshard } /\ UNCHANGED xshard
XSpec == XInit /\ [][XNext]_<<xshard, xidx>>
XReport ==
   IF xidx = 0 THEN TRUE
   ELSE LET v == XVerdict(XRecs[xidx]) IN
        IF XGood(v) THEN PrintT("OK|" \o JInt(v.id))
        ELSE PrintT("BAD|" \o JObj(<< JKV("id", JInt(v.id)), JKV("count", JBool(v.count)), JKV("elements", JBool(v.elements)),
                                      JKV("coords", JBool(v.coords)), JKV("eightdec", JBool(v.eightdec)) >>))
=============================================================================
