SPECIFICATION ISpec
CONSTRAINT IReport
CHECK_DEADLOCK FALSE
