------------------------------ MODULE SMGRefine ------------------------------
(***************************************************************************)
(* Design model of colour refinement (1-WL) as MolGraph and                *)
(* CondensedReactionGraph use it for == and hash, with STRUCTURAL colours  *)
(* (nested tuples and bags), so the model has no accidental collisions.    *)
(*   initial colour : the element                                          *)
(*   round          : atoms with neighbours get <<own colour, bag of the   *)
(*                    neighbours' colours>> (all atoms at once);           *)
(*                    isolated atoms keep their colour                     *)
(*   stop           : as _color_refine: after a round, stop when the       *)
(*                    number of classes did not change or equals n         *)
(* OwnColour = FALSE is the design before the repair (the new colour is    *)
(* the neighbour bag alone).  For reaction graphs the colour of a round is *)
(* the triple of the colours of reactant, product and transition state.    *)
(* The harness compares Partition(g) with the partition induced by the     *)
(* real color_refine_mg / color_refine_crg on every small graph.           *)
(***************************************************************************)
EXTENDS SMGGraph

BagOf(g, col, a) == [c \in { col[b] : b \in Nbrs(g, a) } |-> Cardinality({ b \in Nbrs(g, a) : col[b] = c })]
Round(g, col, own) ==
   [a \in Atoms(g) |-> IF Nbrs(g, a) = {} THEN col[a]
                        ELSE IF own THEN <<"r", col[a], BagOf(g, col, a)>> ELSE <<"b", BagOf(g, col, a)>>]
NClasses(col) == Cardinality({ col[a] : a \in DOMAIN col })

(* plain molecule graph *)
(* k bounds the number of rounds (without the own colour the class count may oscillate for ever) *)
RECURSIVE IterMG(_, _, _, _)
IterMG(g, col, own, k) ==
   LET new == Round(g, col, own) IN
   IF k = 0 \/ NClasses(new) = NClasses(col) \/ NClasses(new) = Cardinality(Atoms(g)) THEN new
   ELSE IterMG(g, new, own, k - 1)
Init0(g) == [a \in Atoms(g) |-> <<"e", g.el[a]>>]      \* tagged, so that colours of different depth never clash in type
FinalMG(g, own) == IF Atoms(g) = {} THEN Init0(g) ELSE IterMG(g, Init0(g), own, Cardinality(Atoms(g)) + 2)

(* reaction graph: three refinements advance in lock step, the class count is taken on the triples *)
Triple(r, p, t) == [a \in DOMAIN r |-> <<r[a], p[a], t[a]>>]
RECURSIVE IterCRG(_, _, _, _, _, _, _, _)
IterCRG(gr, gp, gt, r, p, t, own, k) ==
   LET r2 == Round(gr, r, own)  p2 == Round(gp, p, own)  t2 == Round(gt, t, own)
       old == Triple(r, p, t)  new == Triple(r2, p2, t2) IN
   IF k = 0 \/ NClasses(new) = NClasses(old) \/ NClasses(new) = Cardinality(DOMAIN r) THEN new
   ELSE IterCRG(gr, gp, gt, r2, p2, t2, own, k - 1)
FinalCRG(g, own) ==
   LET gr == Reactant(g, FALSE)  gp == Product(g, FALSE)  gt == TSGraph(g) IN
   IF Atoms(g) = {} THEN Init0(g) ELSE IterCRG(gr, gp, gt, Init0(g), Init0(g), Init0(g), own, Cardinality(Atoms(g)) + 2)

Final(g, own) == IF HasRoles(g.kind) THEN FinalCRG(g, own) ELSE FinalMG(g, own)
Partition(g, own) == LET c == Final(g, own) IN { { b \in Atoms(g) : c[b] = c[a] } : a \in Atoms(g) }
(* the multiset of final colours: what the hash is computed from *)
ColourBag(g, own) == LET c == Final(g, own) IN
   { <<x, Cardinality({ a \in Atoms(g) : c[a] = x })>> : x \in { c[a] : a \in Atoms(g) } }
=============================================================================
