------------------------------ MODULE MC_BondOrd ------------------------------
(* C18, structural half: every symmetric 0/1 connectivity matrix with zero    *)
(* diagonal on n atoms x element lists (also chemically impossible inputs).   *)
(* One line per case: B|{els, ac}.                                            *)
EXTENDS Integers, Sequences, FiniteSets, TLC, SMGJson
CONSTANTS NAt, SampleMod
ElPool == <<1, 6, 7, 8, 16, 9, 78, 15, 17, 11, 26>>     \* incl. two elements without valence data (Na, Fe)
Pairs == { <<i, j>> \in (1..NAt) \X (1..NAt) : i < j }
VARIABLES B, e
vars == <<B, e>>
Code == Cardinality(B) * 37 + e[1] * 5 + e[NAt] * 11 + (IF NAt > 2 THEN e[2] * 101 ELSE 0)
        + (IF <<1, 2>> \in B THEN 3 ELSE 0) + (IF NAt > 2 /\ <<2, 3>> \in B THEN 7 ELSE 0)
Init == /\ B \in SUBSET Pairs /\ e \in [1..NAt -> 1..Len(ElPool)]
        /\ (SampleMod <= 1 \/ Code % SampleMod = 0)
Next == UNCHANGED vars
Spec == Init /\ [][Next]_vars
AC(i, j) == IF <<i, j>> \in B \/ <<j, i>> \in B THEN 1 ELSE 0
Emit == PrintT("B|" \o JObj(<<
   JKV("els", JIntSeq([k \in 1..NAt |-> ElPool[e[k]]])),
   JKV("ac", JArr([i \in 1..NAt |-> JIntSeq([j \in 1..NAt |-> AC(i, j)])])) >>))
=============================================================================
