----------------------------- MODULE SMGFamilies -----------------------------
(***************************************************************************)
(* The case families (finite sets of graphs of one class) shared by        *)
(* MC_IsoPairs (equality / hash / enumeration / mirror images on the real  *)
(* classes) and MC_VF2S (the VF2++ loop model run on the same pairs).      *)
(***************************************************************************)
EXTENDS SMGGraph

CONSTANT Fam        \* family name

Bd(role) == [role |-> role, at |-> Emp]
Mk(kind, el, bd) == [EmptyGraph(kind) EXCEPT !.el = el, !.aat = [a \in DOMAIN el |-> Emp], !.bd = bd]
PairSet(S) == { b \in SUBSET S : Cardinality(b) = 2 }
D(c, t, p) == [cls |-> c, atoms |-> t, par |-> p]

(* ------------------------- plain molecule graphs ------------------------- *)
MGsOn(n, kind) ==
   { Mk(kind, el, [b \in B |-> Bd("none")]) : el \in [1..n -> {1, 6}], B \in SUBSET PairSet(1..n) }
FamMG(nmax, kind) == UNION { MGsOn(n, kind) : n \in 0..nmax }

(* ----------------------------- reaction graphs --------------------------- *)
CRGsOn(n, kind, els) ==
   UNION { { Mk(kind, el, [b \in DOMAIN bf |-> Bd(bf[b])]) : el \in [1..n -> els] } :
             bf \in UNION { [B -> Roles] : B \in SUBSET PairSet(1..n) } }
FamCRG(nmax, kind, els) == UNION { CRGsOn(n, kind, els) : n \in 0..nmax }

(* --------------------------- stereo templates ---------------------------- *)
LigEls == {1, 9, 17}
StarBonds(n) == [b \in { {1, k} : k \in 2..n } |-> Bd("none")]
Star5(kind, le, d) ==            \* centre 1 (carbon), ligands 2..5 with elements le
   [Mk(kind, (1 :> 6) @@ [k \in 2..5 |-> le[k - 1]], StarBonds(5)) EXCEPT !.ast = (1 :> d)]
Star5Descr == { D("Tetrahedral", <<1,2,3,4,5>>, 1), D("Tetrahedral", <<1,2,3,4,5>>, -1),
                D("Tetrahedral", <<1,3,2,4,5>>, 1), D("Tetrahedral", <<1,5,4,3,2>>, -1),
                D("SquarePlanar", <<1,2,3,4,5>>, 0), D("SquarePlanar", <<1,2,4,3,5>>, 0),
                D("SquarePlanar", <<1,4,3,2,5>>, 0) }
FamStar5(kind) == { Star5(kind, le, d) :
                      le \in [1..4 -> LigEls] \cup { <<1, 9, 17, 35>>, <<9, 1, 17, 35>>, <<35, 17, 9, 1>>, <<1, 9, 35, 17>> },
                      d \in Star5Descr }

Star4LP(kind, le, d) ==          \* phosphorus-like centre with a lone pair
   [Mk(kind, (1 :> 15) @@ [k \in 2..4 |-> le[k - 1]], StarBonds(4)) EXCEPT !.ast = (1 :> d)]
Star4Descr == { D("Tetrahedral", <<1,2,3,4,NoAtom>>, 1), D("Tetrahedral", <<1,2,3,4,NoAtom>>, -1),
                D("Tetrahedral", <<1,NoAtom,3,2,4>>, -1), D("Tetrahedral", <<1,3,2,NoAtom,4>>, -1),
                D("Tetrahedral", <<1,4,NoAtom,2,3>>, 1) }
FamStar4LP(kind) == { Star4LP(kind, le, d) : le \in [1..3 -> LigEls], d \in Star4Descr }

Star3LP2(kind, le, d) ==         \* oxygen-like centre with two lone pairs
   [Mk(kind, (1 :> 8) @@ [k \in 2..3 |-> le[k - 1]], StarBonds(3)) EXCEPT !.ast = (1 :> d)]
LP2Descr == { D("Tetrahedral", <<1,2,3,NoAtom,NoAtom>>, 1), D("Tetrahedral", <<1,2,3,NoAtom,NoAtom>>, -1),
              D("Tetrahedral", <<1,NoAtom,3,2,NoAtom>>, 1), D("Tetrahedral", <<1,3,NoAtom,NoAtom,2>>, -1) }
FamLP2(kind) == { Star3LP2(kind, le, d) : le \in [1..2 -> LigEls], d \in LP2Descr }

EtheneBonds == ({1,3} :> Bd("none")) @@ ({2,3} :> Bd("none")) @@ ({3,4} :> Bd("none"))
               @@ ({4,5} :> Bd("none")) @@ ({4,6} :> Bd("none"))
Ethene6(kind, le, d) ==          \* 1,2 on atom 3; 5,6 on atom 4
   [Mk(kind, (3 :> 6) @@ (4 :> 6) @@ (1 :> le[1]) @@ (2 :> le[2]) @@ (5 :> le[3]) @@ (6 :> le[4]), EtheneBonds)
      EXCEPT !.bst = ({3,4} :> d)]
EtheneDescr == { D("PlanarBond", <<1,2,3,4,5,6>>, 0), D("PlanarBond", <<1,2,3,4,6,5>>, 0),
                 D("PlanarBond", <<6,5,4,3,2,1>>, 0),
                 D("AtropBond", <<1,2,3,4,5,6>>, 1), D("AtropBond", <<1,2,3,4,5,6>>, -1),
                 D("AtropBond", <<2,1,3,4,5,6>>, 1), D("AtropBond", <<5,6,4,3,2,1>>, 1) }
FamEthene(kind) == { Ethene6(kind, le, d) : le \in [1..4 -> {1, 9}], d \in EtheneDescr }

(* reaction: the central bond of the ethene skeleton is formed; its descriptor lives in a bond stereo  *)
(* change (formed / fleeting), in several spellings, also with unspecified parity                    *)
EtheneR(le, cd) ==
   [Mk("SCRG", (3 :> 6) @@ (4 :> 6) @@ (1 :> le[1]) @@ (2 :> le[2]) @@ (5 :> le[3]) @@ (6 :> le[4]),
       [EtheneBonds EXCEPT ![{3,4}] = Bd("formed")]) EXCEPT !.bch = ({3,4} :> cd)]
PBn  == D("PlanarBond", <<1,2,3,4,5,6>>, NoPar)
PBn2 == D("PlanarBond", <<5,6,4,3,1,2>>, NoPar)
PBn3 == D("PlanarBond", <<2,1,3,4,6,5>>, NoPar)
ABn  == D("AtropBond", <<6,5,4,3,2,1>>, NoPar)
FamEtheneR == { EtheneR(le, cd) : le \in { <<1,9,1,9>>, <<1,9,1,17>>, <<1,1,9,17>> },
                cd \in { ("formed" :> PBn), ("formed" :> PBn2), ("formed" :> PBn3), ("fleeting" :> ABn) @@ ("formed" :> PBn),
                         ("formed" :> D("PlanarBond", <<1,2,3,4,5,6>>, 0)), ("formed" :> D("PlanarBond", <<6,5,4,3,2,1>>, 0)),
                         ("formed" :> D("PlanarBond", <<1,2,3,4,6,5>>, 0)),
                         ("fleeting" :> D("AtropBond", <<1,2,3,4,5,6>>, 1)) @@ ("formed" :> D("PlanarBond", <<1,2,3,4,5,6>>, 0)),
                         ("fleeting" :> D("AtropBond", <<2,1,3,4,5,6>>, -1)) @@ ("formed" :> D("PlanarBond", <<2,1,3,4,6,5>>, 0)),
                         ("fleeting" :> D("AtropBond", <<1,2,3,4,5,6>>, -1)) @@ ("formed" :> D("PlanarBond", <<1,2,3,4,5,6>>, 0)) } }
(* static descriptors with unspecified parity in different spellings *)
(* one class per skeleton: comparisons of unspecified descriptors of DIFFERENT classes are pinned by no property *)
FamNoPar == { Ethene6("SMG", le, d) : le \in { <<1,9,1,9>>, <<1,9,1,17>> }, d \in { PBn, PBn2, PBn3 } }
             \cup { Star5("SMG", le, d) : le \in { <<1,9,17,35>>, <<1,1,9,9>> },
                     d \in { D("Tetrahedral", <<1,2,3,4,5>>, NoPar), D("Tetrahedral", <<1,5,3,2,4>>, NoPar),
                              D("Tetrahedral", <<1,3,2,5,4>>, NoPar) } }

TwoBonds == [b \in { {1,5}, {1,2}, {1,3}, {1,4}, {5,6}, {5,7}, {5,8} } |-> Bd("none")]
TwoCentres(kind, l1, l2, p1, p2) ==   \* 2,3,4 on centre 1; 6,7,8 on centre 5
   [Mk(kind, (1 :> 6) @@ (5 :> 6) @@ [k \in 2..4 |-> l1[k - 1]] @@ [k \in 6..8 |-> l2[k - 5]], TwoBonds)
      EXCEPT !.ast = (1 :> D("Tetrahedral", <<1,5,2,3,4>>, p1)) @@ (5 :> D("Tetrahedral", <<5,1,6,7,8>>, p2))]
LigTriples == { t \in [1..3 -> LigEls] : t[1] <= t[2] /\ t[2] <= t[3] }
FamTwo(kind) == { TwoCentres(kind, l1, l2, p1, p2) :
                    l1 \in { <<1, 9, 17>>, <<1, 1, 9>> }, l2 \in { <<1, 9, 17>>, <<9, 1, 17>>, <<1, 1, 9>>, <<1, 1, 1>> },
                    p1 \in {1, -1}, p2 \in {1, -1} }

(* the same skeleton with either centre possibly WITHOUT a descriptor (p = 0): a stereo centre never matches an
   unspecified one, whichever of the two graphs carries the descriptor *)
TwoPartial(kind, l1, l2, p1, p2) ==
   LET g == TwoCentres(kind, l1, l2, p1, p2) IN
   [g EXCEPT !.ast = [a \in { x \in {1, 5} : (x = 1 /\ p1 # 0) \/ (x = 5 /\ p2 # 0) } |-> g.ast[a]]]
FamTwoPartial(kind) == { TwoPartial(kind, l1, l2, p1, p2) :
                           l1 \in { <<1, 9, 17>>, <<1, 1, 9>> }, l2 \in { <<1, 9, 17>>, <<1, 1, 9>> },
                           p1 \in {1, -1, 0}, p2 \in {1, -1, 0} }

(* the two-centre skeleton as a reaction: both centres invert (broken / formed descriptors), so two stereo-change
   entries mention the same atoms (each centre is a ligand of the other) and the two halves can be exchanged *)
TwoChange(l1, l2, p1, p2) ==
   LET g == Mk("SCRG", (1 :> 6) @@ (5 :> 6) @@ [k \in 2..4 |-> l1[k - 1]] @@ [k \in 6..8 |-> l2[k - 5]], TwoBonds)
       C(c, t, p) == ("broken" :> D("Tetrahedral", t, p)) @@ ("formed" :> D("Tetrahedral", t, -p)) IN
   [g EXCEPT !.ach = (1 :> C(1, <<1,5,2,3,4>>, p1)) @@ (5 :> C(5, <<5,1,6,7,8>>, p2))]
FamTwoChange == { TwoChange(l1, l2, p1, p2) : l1 \in { <<1, 9, 17>>, <<1, 1, 9>> }, l2 \in { <<1, 9, 17>>, <<1, 1, 9>> },
                                              p1 \in {1, -1}, p2 \in {1, -1} }

(* an allyl-like chain 1-2-3 with a planar-bond stereo change on BOTH bonds: the two entries share the leaf atom 6
   (the substituent of the middle atom), and exchanging the two ends is an automorphism when the ends look alike *)
AllylBonds == [b \in { {1,2}, {2,3}, {1,4}, {1,5}, {2,6}, {3,7}, {3,8} } |-> Bd("none")]
Allyl(le, d12, d23, c12, c23) ==
   [Mk("SCRG", (1 :> 6) @@ (2 :> 6) @@ (3 :> 6) @@ (4 :> le[1]) @@ (5 :> le[2]) @@ (6 :> 1) @@ (7 :> le[3]) @@ (8 :> le[4]), AllylBonds)
      EXCEPT !.bch = ({1,2} :> (c12 :> d12)) @@ ({2,3} :> (c23 :> d23))]
FamAllyl == { Allyl(le, d12, d23, c12, c23) :
                 le \in { <<1, 9, 1, 9>>, <<1, 9, 9, 1>>, <<1, 1, 1, 1>> },
                 d12 \in { D("PlanarBond", <<4,5,1,2,6,3>>, 0), D("PlanarBond", <<5,4,1,2,6,3>>, 0) },
                 d23 \in { D("PlanarBond", <<1,6,2,3,7,8>>, 0), D("PlanarBond", <<1,6,2,3,8,7>>, 0) },
                 c12 \in {"broken", "formed"}, c23 \in {"broken", "formed"} }

(* electrocyclic ring closure butadiene -> cyclobutene: three bond stereo changes and two atom stereo changes whose
   descriptors overlap in the hydrogens of the inner carbons; two-fold symmetry (1<->4, 2<->3) *)
ElcycBonds == [b \in { {1,2}, {2,3}, {3,4}, {1,5}, {1,6}, {2,7}, {3,8}, {4,9}, {4,10} } |-> Bd("none")] @@ ({1,4} :> Bd("formed"))
Elcyc(p1, p4, d23) ==
   [Mk("SCRG", [a \in 1..10 |-> IF a <= 4 THEN 6 ELSE 1], ElcycBonds)
      EXCEPT !.bch = ({1,2} :> ("broken" :> D("PlanarBond", <<5,6,1,2,7,3>>, 0))) @@
                     ({3,4} :> ("broken" :> D("PlanarBond", <<2,8,3,4,9,10>>, 0))) @@
                     ({2,3} :> ("formed" :> d23)),
             !.ach = (1 :> ("formed" :> D("Tetrahedral", <<1,2,4,5,6>>, p1))) @@
                     (4 :> ("formed" :> D("Tetrahedral", <<4,3,1,9,10>>, p4)))]
FamElcyc == { Elcyc(p1, p4, d23) : p1 \in {1, -1}, p4 \in {1, -1},
                                   d23 \in { D("PlanarBond", <<1,7,2,3,8,4>>, 0), D("PlanarBond", <<1,7,2,3,4,8>>, 0) } }

TBPStar(kind, le, d) ==
   [Mk(kind, (1 :> 15) @@ [k \in 2..6 |-> le[k - 1]], StarBonds(6)) EXCEPT !.ast = (1 :> d)]
TBPDescr == { D("TrigonalBipyramidal", <<1,2,3,4,5,6>>, 1), D("TrigonalBipyramidal", <<1,2,3,4,5,6>>, -1),
              D("TrigonalBipyramidal", <<1,3,2,4,6,5>>, 1), D("TrigonalBipyramidal", <<1,2,4,3,5,6>>, 1),
              D("TrigonalBipyramidal", <<1,3,2,4,5,6>>, 1) }
FamTBP(kind) == { TBPStar(kind, le, d) : le \in { <<1,1,9,9,17>>, <<1,9,17,35,53>>, <<9,9,9,1,1>>, <<1,9,1,9,17>> },
                                          d \in TBPDescr }

OctStar(kind, le, d) ==
   [Mk(kind, (1 :> 27) @@ [k \in 2..7 |-> le[k - 1]], StarBonds(7)) EXCEPT !.ast = (1 :> d)]
OctDescr == { D("Octahedral", <<1,2,3,4,5,6,7>>, 1), D("Octahedral", <<1,2,3,4,5,6,7>>, -1),
              D("Octahedral", <<1,3,2,4,5,6,7>>, -1), D("Octahedral", <<1,4,6,2,5,3,7>>, 1),
              D("Octahedral", <<1,2,4,3,5,6,7>>, 1) }
FamOct(kind) == { OctStar(kind, le, d) : le \in { <<1,1,9,9,17,17>>, <<1,9,17,35,53,7>>, <<9,9,9,1,1,1>>, <<1,1,1,1,9,9>> },
                                         d \in OctDescr }

(* stereo reaction graphs: the star skeleton with one formed / broken bond   *)
(* and the centre descriptor static or as broken / formed / fleeting change  *)
SN2(le, sd, cd, rb) ==
   [Mk("SCRG", (1 :> 6) @@ [k \in 2..5 |-> le[k - 1]], [StarBonds(5) EXCEPT ![{1,5}] = Bd(rb[1]), ![{1,4}] = Bd(rb[2])])
      EXCEPT !.ast = IF sd = NoD THEN Emp ELSE (1 :> sd), !.ach = IF cd = Emp THEN Emp ELSE (1 :> cd)]
TetA == D("Tetrahedral", <<1,2,3,4,NoAtom>>, 1)
TetB == D("Tetrahedral", <<1,2,3,4,NoAtom>>, -1)
TetBx == D("Tetrahedral", <<1,3,2,4,NoAtom>>, 1)
TetC == D("Tetrahedral", <<1,2,3,5,NoAtom>>, 1)
TBPf == D("TrigonalBipyramidal", <<1,4,5,2,3,NoAtom>>, 1)
FamSN2 == { SN2(le, sd, cd, rb) :
              le \in { <<1, 9, 17, 35>>, <<1, 1, 17, 35>>, <<1, 9, 17, 17>> },
              sd \in { NoD, TetA, TetBx },
              cd \in { Emp, ("broken" :> TetA) @@ ("formed" :> TetC), ("broken" :> TetB) @@ ("formed" :> TetC),
                       ("broken" :> TetBx) @@ ("formed" :> TetC) @@ ("fleeting" :> TBPf),
                       ("formed" :> TetC), ("broken" :> TetA),
                       ("broken" :> TetA) @@ ("fleeting" :> TetA) @@ ("formed" :> TetC) },
              rb \in { <<"formed", "broken">>, <<"broken", "formed">>, <<"none", "none">>, <<"fleeting", "none">> } }

(* C13: every placement of distinct ligands, both parities (all n!/|G| classes in every spelling) *)
AllPlace(kind, cls, centreEl, ligEls) ==
   LET n == Arity(cls) IN
   { [Mk(kind, (1 :> centreEl) @@ [k \in 2..n |-> ligEls[k - 1]], StarBonds(n)) EXCEPT !.ast = (1 :> D(cls, t, p))] :
       t \in { x \in Perms(n) : x[1] = 1 }, p \in ClassParities(cls) }
AllLP == { [Mk("SMG", (1 :> 16) @@ (2 :> 6) @@ (3 :> 8) @@ (4 :> 9), StarBonds(4))
              EXCEPT !.ast = (1 :> D("Tetrahedral", t, p))] :
             t \in { [k \in 1..5 |-> IF x[k] = 5 THEN NoAtom ELSE x[k]] : x \in { y \in Perms(5) : y[1] = 1 } }, p \in {1, -1} }

(* Reaction graphs on REGULAR skeletons: the triangular prism and the cube, all atoms carbon, a matching of the skeleton
   formed (or broken).  All atoms then look alike to colour refinement (same element, same number of changed and
   unchanged bonds), yet e.g. the three rungs of the prism and a rung plus two triangle edges are different reactions
   (reactant = two triangles vs. a six-ring): equality must be decided by the bonds' roles, not by atom colours. *)
PrismEdges == { {1,2}, {2,3}, {1,3}, {4,5}, {5,6}, {4,6}, {1,4}, {2,5}, {3,6} }
CubeEdges == { {1,2}, {2,3}, {3,4}, {1,4}, {5,6}, {6,7}, {7,8}, {5,8}, {1,5}, {2,6}, {3,7}, {4,8} }
Matchings(E) == { m \in SUBSET E : \A b1, b2 \in m : b1 # b2 => b1 \cap b2 = {} }
Regular(kind, n, E, M, r) == Mk(kind, [a \in 1..n |-> 6], [b \in E |-> Bd(IF b \in M THEN r ELSE "none")])
FamPrism(kind) == { Regular(kind, 6, PrismEdges, M, r) : M \in Matchings(PrismEdges), r \in {"formed", "broken"} }
FamCube(kind) == { Regular(kind, 8, CubeEdges, M, r) :
                     M \in { m \in Matchings(CubeEdges) : Cardinality(m) = 4 }, r \in {"formed", "fleeting"} }

(* An octahedral centre whose first ligand is itself a stereocentre (pyramidal donor atom with a lone pair): two
   descriptors that share a bond - what one centre's export does to the bond must not disturb the other. *)
OctDonor(kind, le, p1, p2) ==
   [Mk(kind, (1 :> 27) @@ (2 :> 7) @@ [k \in 3..7 |-> le[k - 2]] @@ (8 :> 1) @@ (9 :> 9),
       [b \in { {1, k} : k \in 2..7 } \cup { {2, 8}, {2, 9} } |-> Bd("none")])
      EXCEPT !.ast = (1 :> D("Octahedral", <<1,2,3,4,5,6,7>>, p1)) @@ (2 :> D("Tetrahedral", <<2,1,8,9,NoAtom>>, p2))]
FamOctDonor(kind) == { OctDonor(kind, le, p1, p2) : le \in { <<1,9,17,35,53>>, <<9,9,17,17,1>> }, p1 \in {1, -1}, p2 \in {1, -1} }

(* Two octahedral centres bonded to each other (as in Mn2(CO)10): each centre is a ligand of the other. *)
OctOct(kind, l1, l2, p1, p2) ==
   [Mk(kind, (1 :> 25) @@ (2 :> 25) @@ [k \in 3..7 |-> l1[k - 2]] @@ [k \in 8..12 |-> l2[k - 7]],
       [b \in { {1, k} : k \in 2..7 } \cup { {2, k} : k \in 8..12 } |-> Bd("none")])
      EXCEPT !.ast = (1 :> D("Octahedral", <<1,2,3,4,5,6,7>>, p1)) @@ (2 :> D("Octahedral", <<2,1,8,9,10,11,12>>, p2))]
FamOctOct(kind) == { OctOct(kind, l1, l2, p1, p2) : l1 \in { <<1,9,17,35,53>> }, l2 \in { <<1,9,17,35,53>>, <<9,9,17,17,1>> },
                                                   p1 \in {1, -1}, p2 \in {1, -1} }

(* Partner exchange among three diatomics: reactant bonds 1-2, 3-4, 5-6, product any perfect matching of the six
   atoms (identity, a four-ring exchange with a spectator, the six-ring exchange, ...).  Reactant and product look the
   same atom by atom; only the transition structure (the union of all bonds) tells the reactions apart. *)
ExchR == { {1,2}, {3,4}, {5,6} }
PerfectMatchings6 == { m \in SUBSET PairSet(1..6) : Cardinality(m) = 3 /\ UNION m = 1..6 }
Exch(kind, el, P) ==
   Mk(kind, el, [b \in ExchR \cup P |-> Bd(IF b \in ExchR /\ b \in P THEN "none" ELSE IF b \in ExchR THEN "broken" ELSE "formed")])
FamExch(kind) ==
   { Exch(kind, [a \in 1..6 |-> 1], P) : P \in PerfectMatchings6 } \cup
   { Exch(kind, [a \in 1..6 |-> IF a % 2 = 1 THEN 1 ELSE 17], P) :
        P \in { m \in PerfectMatchings6 : \A b \in m : \E x \in b : x % 2 = 1 /\ \E y \in b : y % 2 = 0 } }

Family == CASE Fam = "alltet" -> AllPlace("SMG", "Tetrahedral", 6, <<1, 9, 17, 35>>)
            [] Fam = "allsp"  -> AllPlace("SMG", "SquarePlanar", 78, <<1, 9, 17, 35>>)
            [] Fam = "alltbp" -> AllPlace("SMG", "TrigonalBipyramidal", 15, <<1, 9, 17, 35, 8>>)
            [] Fam = "alloct" -> AllPlace("SMG", "Octahedral", 27, <<1, 9, 17, 35, 8, 7>>)
            [] Fam = "alllp"  -> AllLP
            [] Fam = "mg3"   -> FamMG(3, "MG")
            [] Fam = "mg4"   -> FamMG(4, "MG")
            [] Fam = "smg3"  -> FamMG(3, "SMG")
            [] Fam = "crg2"  -> FamCRG(2, "CRG", {1, 6})
            [] Fam = "crg3"  -> FamCRG(3, "CRG", {1, 6})
            [] Fam = "scrg2" -> FamCRG(2, "SCRG", {1, 6})
            [] Fam = "octdonor" -> FamOctDonor("SMG")
            [] Fam = "octoct" -> FamOctOct("SMG")
            [] Fam = "exch" -> FamExch("CRG")
            [] Fam = "exchs" -> FamExch("SCRG")
            [] Fam = "prismr" -> FamPrism("CRG")
            [] Fam = "prismsr" -> FamPrism("SCRG")
            [] Fam = "cuber" -> FamCube("CRG")
            [] Fam = "star5" -> FamStar5("SMG")
            [] Fam = "star5r" -> FamStar5("SCRG")
            [] Fam = "star4lp" -> FamStar4LP("SMG")
            [] Fam = "lp2"    -> FamLP2("SMG")
            [] Fam = "ethener" -> FamEtheneR
            [] Fam = "nopar"  -> FamNoPar
            [] Fam = "ethene" -> FamEthene("SMG")
            [] Fam = "two"   -> FamTwo("SMG")
            [] Fam = "twop"  -> FamTwoPartial("SMG")
            [] Fam = "twoc"  -> FamTwoChange
            [] Fam = "allylr" -> FamAllyl
            [] Fam = "elcyc" -> FamElcyc
            [] Fam = "tbp"   -> FamTBP("SMG")
            [] Fam = "oct"   -> FamOct("SMG")
            [] Fam = "sn2"   -> FamSN2

FamSeq == SetToSeqG(Family)
NFam == Len(FamSeq)
=============================================================================
