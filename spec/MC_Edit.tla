------------------------------- MODULE MC_Edit -------------------------------
(***************************************************************************)
(* The state machine of public operations, structured like the             *)
(* implementation: one action per public method, rejected requests and     *)
(* read-only queries are actions too.  Three object slots:                 *)
(*    A  the graph being edited                                            *)
(*    B  a graph derived from A (copy, relabel, subgraph, reactant, ...)   *)
(*    C  compose(A, B) / compose(B, A)                                     *)
(* Phases: 0 edit A (bounded by MaxA) -> 1 derived (one follow-up on A or  *)
(* B) -> 2 -> compose -> 3 (one follow-up on C) -> 4.                      *)
(* Every generated transition is printed (ACTION_CONSTRAINT Emit) with the *)
(* full set of allowed outcomes; the harness executes it on the real       *)
(* classes.  `last` is hidden from the fingerprint by the VIEW.            *)
(***************************************************************************)
EXTENDS SMGEmit

CONSTANTS Kind,        \* "MG" | "SMG" | "CRG" | "SCRG"
          N,           \* identifiers 1..N, one fresh identifier N+1
          MaxA,        \* number of edit steps on A
          SeedSet,     \* name of the set of initial graphs
          WithQ,       \* queries as transitions
          DeriveSet,   \* names of derivations to drive (subset of Derivers)
          RelabelMode, \* "none" | "few" | "all"
          FollowUp,    \* TRUE: phases 1..4 take follow-up steps
          GenN,        \* generated seed graphs use identifiers 1..GenN
          SubsetMode,  \* "all" | "few"  : subsets driven through subgraph
          SecondSet,   \* derivations applied to the derived graph in phase 1 (result into C); {} for none
          FollowMode   \* "all" | "focus": follow-up steps use every op / ops on the focus identifiers

VARIABLES A, B, C, ph, last
vars == <<A, B, C, ph, last>>
View == <<A, B, C, ph>>

Ids   == 1..N
Fresh == N + 1
Els   == {1, 6}
BadEl == 0
Vals  == {7, 8}
Pairs == { <<x, y>> \in Ids \X Ids : x <= y }
PairsLt == { <<x, y>> \in Ids \X Ids : x < y }

D(c, t, p) == [cls |-> c, atoms |-> t, par |-> p]
T1p == D("Tetrahedral", <<1, 2, 3, 4, NoAtom>>, 1)
T1m == D("Tetrahedral", <<1, 2, 3, 4, NoAtom>>, -1)
T1n == D("Tetrahedral", <<1, 2, 3, 4, NoAtom>>, NoPar)
T1x == D("Tetrahedral", <<1, 3, 2, 4, NoAtom>>, 1)        \* same class as T1m, other spelling
T2p == D("Tetrahedral", <<2, 1, 3, 4, NoAtom>>, 1)
S1  == D("SquarePlanar", <<1, 2, 3, 4, NoAtom>>, 0)
P23 == D("PlanarBond", <<1, NoAtom, 2, 3, 4, NoAtom>>, 0)
P23x == D("PlanarBond", <<NoAtom, 1, 2, 3, 4, NoAtom>>, 0)
R23p == D("AtropBond", <<1, NoAtom, 2, 3, 4, NoAtom>>, 1)
R23m == D("AtropBond", <<1, NoAtom, 2, 3, 4, NoAtom>>, -1)
P12 == D("PlanarBond", <<NoAtom, NoAtom, 1, 2, 3, 4>>, 0)
S1n == D("SquarePlanar", <<1, 2, 3, 4, NoAtom>>, NoPar)
P23n == D("PlanarBond", <<1, NoAtom, 2, 3, 4, NoAtom>>, NoPar)
R23n == D("AtropBond", <<1, NoAtom, 2, 3, 4, NoAtom>>, NoPar)
AMenu == {T1p, T1m, T1n, T2p, S1, S1n}
BMenu == {P23, R23p, R23m, P12, P23n, R23n}
AChangeCombos == { <<T1p, NoD, NoD>>, <<NoD, T1m, NoD>>, <<NoD, NoD, T1p>>, <<T1p, NoD, T1m>>,
                   <<T1p, S1, T1m>>, <<T1p, NoD, T2p>>, <<NoD, NoD, NoD>>, <<T1n, S1n, NoD>>,
                   <<T1p, T1p, NoD>>, <<T1m, T1m, T1p>> }
BChangeCombos == { <<P23, NoD, NoD>>, <<NoD, NoD, R23p>>, <<P23, R23m, P23x>>,
                   <<P23, NoD, P12>>, <<NoD, NoD, NoD>>, <<NoD, P23n, R23n>>, <<R23p, R23p, NoD>> }

Op(n) == [BaseOp EXCEPT !.name = n]

MutOps(g) ==
     { [Op("add_atom") EXCEPT !.a = a, !.e = e, !.k = k, !.v = 7] :
           a \in Ids, e \in Els, k \in {"", "q"} }
  \cup { [Op("add_atom") EXCEPT !.a = a, !.e = BadEl] : a \in Ids }
  \cup { [Op("remove_atom") EXCEPT !.a = a] : a \in Ids }
  \cup { [Op("add_bond") EXCEPT !.a = p[1], !.b = p[2], !.k = k, !.v = 7, !.ch = "none"] :
           p \in Pairs, k \in {"", "w"} }
  \cup { [Op("remove_bond") EXCEPT !.a = p[1], !.b = p[2]] : p \in Pairs }
  \cup { [Op("set_atom_attr") EXCEPT !.a = a, !.k = "q", !.v = v] : a \in Ids, v \in Vals }
  \* a free ATOM attribute that happens to be called like the bond attribute of reaction graphs
  \cup { [Op("set_atom_attr") EXCEPT !.a = a, !.k = "reaction", !.v = 7] : a \in IF HasRoles(g.kind) THEN Ids ELSE {} }
  \cup { [Op("set_atom_attr") EXCEPT !.a = a, !.k = "atom_type", !.v = e] : a \in Ids, e \in Els \cup {BadEl} }
  \cup { [Op("del_atom_attr") EXCEPT !.a = a, !.k = k] : a \in Ids, k \in {"q", "atom_type"} }
  \cup { [Op("set_bond_attr") EXCEPT !.a = p[1], !.b = p[2], !.k = "w", !.v = v] : p \in Pairs, v \in Vals }
  \cup { [Op("del_bond_attr") EXCEPT !.a = p[1], !.b = p[2], !.k = "w"] : p \in Pairs }
  \cup { [Op("bonds_from_matrix") EXCEPT !.S = cs, !.flag = f] :
           cs \in { x \in SUBSET { 10 * lo + hi : lo \in Atoms(g), hi \in Atoms(g) } :
                        Cardinality(x) \in 1..2 /\ \A c \in x : c \div 10 < c % 10 },
           f \in BOOLEAN }
  \cup (IF HasRoles(g.kind) THEN
         { [Op(n) EXCEPT !.a = p[1], !.b = p[2]] :
              n \in {"add_formed_bond", "add_broken_bond", "add_fleeting_bond", "add_bond_badrole",
                     "set_bond_badrole", "add_formed_badrole", "add_broken_badrole", "add_fleeting_badrole",
                     "del_bond_role"}, p \in Pairs }
         \cup { [Op("add_bond") EXCEPT !.a = p[1], !.b = p[2], !.ch = c] : p \in Pairs, c \in Changes }
         \cup { [Op("set_bond_role") EXCEPT !.a = p[1], !.b = p[2], !.ch = c] : p \in Pairs, c \in Changes }
       ELSE {})
  \cup (IF HasStereo(g.kind) THEN
         { [Op("set_atom_stereo") EXCEPT !.d = d] : d \in AMenu }
         \cup { [Op("del_atom_stereo") EXCEPT !.a = a] : a \in Ids }
         \cup { [Op("set_bond_stereo") EXCEPT !.d = d] : d \in BMenu }
         \cup { [Op("del_bond_stereo") EXCEPT !.a = p[1], !.b = p[2]] : p \in PairsLt }
       ELSE {})
  \cup (IF HasChanges(g.kind) THEN
         { [Op("set_atom_stereo_change") EXCEPT !.db = t[1], !.dl = t[2], !.df = t[3]] : t \in AChangeCombos }
         \cup { [Op("set_bond_stereo_change") EXCEPT !.db = t[1], !.dl = t[2], !.df = t[3]] : t \in BChangeCombos }
         \cup { [Op("del_atom_stereo_change") EXCEPT !.a = a, !.ch = c] : a \in Ids, c \in {"", "broken", "formed"} }
         \cup { [Op("del_bond_stereo_change") EXCEPT !.a = p[1], !.b = p[2], !.ch = c] :
                   p \in PairsLt, c \in {"", "broken", "formed"} }
       ELSE {})

QueryOps(g) ==
  IF ~WithQ THEN {} ELSE
     { [Op(n) EXCEPT !.a = a] : n \in {"has_atom", "get_atom_type", "bonded_to", "component_of"}, a \in Ids }
  \cup { [Op("get_atom_attr") EXCEPT !.a = a, !.k = k] : a \in Ids, k \in {"q", "atom_type"} }
  \cup { [Op("has_bond") EXCEPT !.a = p[1], !.b = p[2]] : p \in Pairs }
  \cup { [Op("get_bond_attr") EXCEPT !.a = p[1], !.b = p[2], !.k = "w"] : p \in Pairs }
  \cup { Op(n) : n \in {"n_atoms", "n_components", "eq_self", "eq_copy", "hash", "str", "to_json", "to_rdmol"} }
  \cup (IF HasRoles(g.kind) THEN
          { [Op("role_bonds") EXCEPT !.ch = c, !.flag = f] : c \in {"formed", "broken", "fleeting"}, f \in BOOLEAN }
          \cup { [Op("active_atoms") EXCEPT !.flag = f] : f \in BOOLEAN }
        ELSE {})
  \cup (IF HasStereo(g.kind) THEN
          { [Op("get_atom_stereo") EXCEPT !.a = a] : a \in Ids }
          \cup { [Op("get_bond_stereo") EXCEPT !.a = p[1], !.b = p[2]] : p \in PairsLt }
          \cup { Op("is_stereo_valid") }
        ELSE {})
  \cup (IF HasChanges(g.kind) THEN
          { [Op("get_atom_stereo_change") EXCEPT !.a = a] : a \in Ids }
          \cup { [Op("get_bond_stereo_change") EXCEPT !.a = p[1], !.b = p[2]] : p \in PairsLt }
        ELSE {})

(* renamings: injective partial maps on Ids into Ids + Fresh *)
Injective(m) == \A x, y \in DOMAIN m : x # y => m[x] # m[y]
AllMaps == UNION { { m \in [Dm -> Ids \cup {Fresh}] : Injective(m) } : Dm \in (SUBSET Ids) \ {{}} }
FewMaps == { m \in AllMaps :
               \/ DOMAIN m = {1} /\ m[1] = Fresh
               \/ DOMAIN m = {1, 2} /\ m[1] = 2 /\ m[2] = 1
               \/ DOMAIN m = Ids /\ \A x \in Ids : m[x] = (x % N) + 1
               \/ DOMAIN m = {2, Fresh - 1} /\ m[2] = Fresh /\ m[Fresh - 1] = 2 }
Maps == CASE RelabelMode = "all" -> AllMaps [] RelabelMode = "few" -> FewMaps [] OTHER -> {}

RelabelOps(g) == { [Op("relabel_inplace") EXCEPT !.m = m] : m \in { x \in Maps : RelabelOK(g, x) \/ AtomCollision(g, x) } }

LeastOf(S) == CHOOSE x \in S : \A y \in S : x <= y
SubsetsFor(g) ==
   IF SubsetMode = "all" THEN SUBSET Ids
   ELSE {Atoms(g)} \cup (IF Atoms(g) = {} THEN {} ELSE { {LeastOf(Atoms(g))}, Atoms(g) \ {LeastOf(Atoms(g))} })
        \cup { {LeastOf(Ids \ Atoms(g))} \cup Atoms(g) : z \in IF Ids \ Atoms(g) = {} THEN {} ELSE {1} }

(* focus identifiers for follow-up steps: the two least atoms and the least absent id *)
Focus(g) ==
   LET P1 == IF Atoms(g) = {} THEN {} ELSE {LeastOf(Atoms(g))}
       R  == Atoms(g) \ P1
       P2 == IF R = {} THEN {} ELSE {LeastOf(R)}
       Ab == (Ids \cup {Fresh}) \ Atoms(g)
       P3 == IF Ab = {} THEN {} ELSE {LeastOf(Ab)}
   IN P1 \cup P2 \cup P3
OpIds(op) == ({op.a, op.b} \ {0})
InFocus(g, op) == OpIds(op) \subseteq Focus(g)

OtherKinds == CASE Kind = "MG" -> {"MG", "SMG", "CRG", "SCRG"}
                [] Kind = "SMG" -> {"MG", "SMG", "SCRG"}
                [] Kind = "CRG" -> {"MG", "CRG", "SCRG"}
                [] Kind = "SCRG" -> {"MG", "SMG", "CRG", "SCRG"}

DeriveOpsFrom(g, DS) ==
     { Op(n) : n \in DS \cap {"copy", "json_roundtrip", "compose_components", "copy_mod"} }
  \cup { [Op("copy_ctor") EXCEPT !.tk = k] : k \in IF "copy_ctor" \in DS THEN OtherKinds ELSE {} }
  \cup { [Op("relabel_copy") EXCEPT !.m = m] :
            m \in IF "relabel_copy" \in DS THEN { x \in Maps : RelabelOK(g, x) \/ AtomCollision(g, x) } ELSE {} }
  \cup { [Op("subgraph") EXCEPT !.S = S] : S \in IF "subgraph" \in DS THEN SubsetsFor(g) ELSE {} }
  \cup { Op(n) : n \in DS \cap (IF HasStereo(g.kind) THEN {"enantiomer"} ELSE {}) }
  \cup { Op(n) : n \in DS \cap (IF HasRoles(g.kind) THEN {"reverse"} ELSE {}) }
  \cup { [Op(n) EXCEPT !.flag = f] :
            n \in DS \cap (IF HasRoles(g.kind) THEN {"reactant", "product"} ELSE {}), f \in BOOLEAN }

DeriveOps(g) == DeriveOpsFrom(g, DeriveSet)
SecondOps(g) == DeriveOpsFrom(g, SecondSet)     \* derivations applied to the derived graph B (result into C)

(* ------------------------------ seeds ------------------------------------ *)
Star == [EmptyGraph(Kind) EXCEPT
           !.el = (1 :> 6 @@ 2 :> 1 @@ 3 :> 1 @@ 4 :> 6),
           !.aat = (1 :> Emp @@ 2 :> Emp @@ 3 :> Emp @@ 4 :> Emp),
           !.bd = ({1,2} :> [role |-> "none", at |-> Emp] @@ {1,3} :> [role |-> "none", at |-> Emp]
                   @@ {1,4} :> [role |-> "none", at |-> Emp])]
Chain == [EmptyGraph(Kind) EXCEPT
           !.el = (1 :> 1 @@ 2 :> 6 @@ 3 :> 6 @@ 4 :> 1),
           !.aat = (1 :> Emp @@ 2 :> Emp @@ 3 :> Emp @@ 4 :> Emp),
           !.bd = ({1,2} :> [role |-> "none", at |-> Emp] @@ {2,3} :> [role |-> "none", at |-> Emp]
                   @@ {3,4} :> [role |-> "none", at |-> Emp])]
StarT  == [Star EXCEPT !.ast = (1 :> T1p)]
ChainP == [Chain EXCEPT !.bst = ({2,3} :> P23)]
StarC  == [Star EXCEPT !.ach = (1 :> ("broken" :> T1p @@ "fleeting" :> T1p @@ "formed" :> T1m)),
                       !.bd[{1,4}].role = "formed"]
ChainC == [Chain EXCEPT !.bch = ({2,3} :> ("broken" :> P23 @@ "fleeting" :> R23p)),
                        !.bd[{1,2}].role = "broken", !.bst = ({3,4} :> D("PlanarBond", <<2, NoAtom, 3, 4, NoAtom, NoAtom>>, 0))]

(* one change entry whose descriptors cover DIFFERENT atom sets (as at an SN2 centre): a subgraph may keep only part of it *)
StarCP == [Star EXCEPT !.ach = (1 :> ("broken" :> T1p @@ "formed" :> D("Tetrahedral", <<1, 2, 3, NoAtom, NoAtom>>, -1))),
                       !.bd[{1,4}].role = "broken"]

(* several descriptors at once, on neighbouring keys: a renaming that maps one key onto another key (swap, shift) must
   not lose or overwrite an entry *)
ChainTT == [Chain EXCEPT !.ast = (2 :> D("Tetrahedral", <<2, 1, 3, NoAtom, NoAtom>>, 1)) @@
                                 (3 :> D("Tetrahedral", <<3, 2, 4, NoAtom, NoAtom>>, -1)),
                         !.bst = ({1,2} :> D("PlanarBond", <<NoAtom, NoAtom, 1, 2, 3, NoAtom>>, 0)) @@
                                 ({3,4} :> D("PlanarBond", <<2, NoAtom, 3, 4, NoAtom, NoAtom>>, 0))]

ChainCC == [Chain EXCEPT !.ach = (2 :> ("broken" :> D("Tetrahedral", <<2, 1, 3, NoAtom, NoAtom>>, 1))) @@
                                 (3 :> ("formed" :> D("Tetrahedral", <<3, 2, 4, NoAtom, NoAtom>>, -1))),
                         !.bch = ({1,2} :> ("formed" :> D("PlanarBond", <<NoAtom, NoAtom, 1, 2, 3, NoAtom>>, 0))) @@
                                 ({3,4} :> ("broken" :> D("PlanarBond", <<2, NoAtom, 3, 4, NoAtom, NoAtom>>, 0)))]

(* descriptors that mention an atom which is not bonded to the centre / bond end any more *)
StarU  == [StarT EXCEPT !.bd = Drop(@, {{1, 2}})]
ChainU == [ChainP EXCEPT !.bd = Drop(@, {{1, 2}})]
StarCU == [StarC EXCEPT !.bd = Drop(@, {{1, 3}})]
(* descriptors whose ligands are not (or no longer) atoms of the graph *)
Lone  == [EmptyGraph(Kind) EXCEPT !.el = (1 :> 6), !.aat = (1 :> Emp)]
LoneT == [Lone EXCEPT !.ast = (1 :> T1p)]
LoneC == [Lone EXCEPT !.ach = (1 :> ("fleeting" :> T1m))]
T5    == D("Tetrahedral", <<1, 2, 3, 4, 5>>, 1)     \* mentions the fresh identifier

(* all small graphs: atoms S, elements, one optional atom attribute on the   *)
(* least atom, every bond pattern with roles, one optional bond attribute    *)
RolesOfKind == IF HasRoles(Kind) THEN Roles ELSE {"none"}
PairSet(S) == { b \in SUBSET S : Cardinality(b) = 2 }
Least(S) == CHOOSE x \in S : \A y \in S : x <= y
GenFor(S, el, bf) ==
   { [EmptyGraph(Kind) EXCEPT
        !.el = el,
        !.aat = [a \in S |-> IF qa /\ a = Least(S) THEN Attrs("q", 7) ELSE Emp],
        !.bd = [b \in DOMAIN bf |-> [role |-> bf[b],
                                      at |-> IF qb /\ b = (CHOOSE x \in DOMAIN bf : TRUE) THEN Attrs("w", 7) ELSE Emp]]] :
       qa \in BOOLEAN, qb \in BOOLEAN }
GenSmall ==
  UNION { UNION { UNION { GenFor(S, el, bf)
     : bf \in UNION { [BS -> RolesOfKind] : BS \in SUBSET PairSet(S) } }
     : el \in [S -> Els] }
     : S \in SUBSET (1..GenN) }

Seeds == CASE SeedSet = "empty"  -> { EmptyGraph(Kind) }
           [] SeedSet = "stereo" -> { EmptyGraph(Kind), Star, Chain } \cup
                                    (IF HasStereo(Kind) THEN { StarT, ChainP, LoneT, StarU, ChainU, ChainTT } ELSE {}) \cup
                                    (IF HasChanges(Kind) THEN { StarC, ChainC, LoneC, StarCU, StarCP } ELSE {})
           [] SeedSet = "multi"  -> (IF HasStereo(Kind) THEN { ChainTT } ELSE { Chain }) \cup
                                    (IF HasChanges(Kind) THEN { ChainCC } ELSE {})
           [] SeedSet = "gen"    -> GenSmall
           [] SeedSet = "gen+stereo" -> GenSmall \cup { Star, Chain } \cup
                                    (IF HasStereo(Kind) THEN { StarT, ChainP } ELSE {}) \cup
                                    (IF HasChanges(Kind) THEN { StarC, ChainC } ELSE {})

(* ------------------------------ actions ---------------------------------- *)
NoLast == [slot |-> "-", op |-> BaseOp, out |-> "init", ans |-> NoAns, alts |-> {}]
Last(slot, op, o, alts) == [slot |-> slot, op |-> op, out |-> o.out, ans |-> o.ans, alts |-> alts]

Init == /\ A \in Seeds /\ B = NoGraph /\ C = NoGraph /\ ph = 0 /\ last = NoLast

OpsOn(g) == MutOps(g) \cup QueryOps(g) \cup RelabelOps(g)
FollowOps(g) == IF FollowMode = "all" THEN OpsOn(g)
                ELSE IF FollowMode = "none" THEN {}          \* only compose / second derivations after the derivation
                ELSE { op \in OpsOn(g) : InFocus(g, op) }

EditA(nextph, ops) ==
   \E op \in ops : LET alts == Outcomes(A, NoGraph, op) IN
     \E o \in alts : /\ o.res = NoGraph
                     /\ A' = o.g /\ last' = Last("A", op, o, alts) /\ ph' = nextph /\ UNCHANGED <<B, C>>
EditB(nextph, ops) ==
   \E op \in ops : LET alts == Outcomes(B, NoGraph, op) IN
     \E o \in alts : /\ o.res = NoGraph
                     /\ B' = o.g /\ last' = Last("B", op, o, alts) /\ ph' = nextph /\ UNCHANGED <<A, C>>
EditC(nextph, ops) ==
   \E op \in ops : LET alts == Outcomes(C, NoGraph, op) IN
     \E o \in alts : /\ o.res = NoGraph
                     /\ C' = o.g /\ last' = Last("C", op, o, alts) /\ ph' = nextph /\ UNCHANGED <<A, B>>
Derive ==
   \E op \in DeriveOps(A) : LET alts == Outcomes(A, NoGraph, op) IN
     \E o \in alts : /\ o.out = "ok" /\ o.res # NoGraph
                     /\ A' = o.g /\ B' = o.res /\ last' = Last("A", op, o, alts) /\ ph' = 1 /\ UNCHANGED C
DeriveRaise ==   \* a derivation that is refused leaves everything as it was
   \E op \in DeriveOps(A) : LET alts == Outcomes(A, NoGraph, op) IN
     \E o \in alts : /\ o.out = "raise"
                     /\ A' = o.g /\ last' = Last("A", op, o, alts) /\ UNCHANGED <<B, C, ph>>
(* a derivation applied to the DERIVED graph, result into C (a derived graph must be as usable as a freshly built one) *)
DeriveB ==
   \E op \in SecondOps(B) : LET alts == Outcomes(B, NoGraph, op) IN
     \E o \in alts : /\ o.res # NoGraph \/ o.out = "raise"
                     /\ B' = o.g /\ C' = (IF o.out = "raise" THEN C ELSE o.res)
                     /\ last' = Last("BC", op, o, alts) /\ ph' = 3 /\ UNCHANGED A
ComposeAB ==
   \E ord \in {"AB", "BA"} :
     LET g1 == IF ord = "AB" THEN A ELSE B
         g2 == IF ord = "AB" THEN B ELSE A
         tk == IF g1.kind = g2.kind THEN g1.kind ELSE Kind
         op == [Op("compose") EXCEPT !.tk = tk, !.k = ord]
         alts == Outcomes(g1, g2, op) IN
     \E o \in alts : /\ C' = o.res /\ last' = Last(ord, op, o, alts) /\ ph' = 3 /\ UNCHANGED <<A, B>>

Next ==
   \/ ph = 0 /\ TLCGet("level") <= MaxA /\ EditA(0, OpsOn(A))
   \/ ph = 0 /\ Derive
   \/ ph = 0 /\ DeriveRaise
   \/ FollowUp /\ ph = 1 /\ (EditA(2, FollowOps(A)) \/ EditB(2, FollowOps(B)))
   \/ FollowUp /\ ph = 1 /\ "compose" \in DeriveSet /\ ComposeAB
   \/ FollowUp /\ ph = 1 /\ B # NoGraph /\ SecondSet # {} /\ DeriveB
   \/ FollowUp /\ ph = 3 /\ EditC(4, FollowOps(C))

Spec == Init /\ [][Next]_vars

(* phase 0 is bounded by the number of edit steps (guard on the level of the
   expanded state, so that every transition out of a kept state is printed);
   the later phases are one step each *)

(* --------------------------- properties of the spec ---------------------- *)
TypeOK == /\ A.kind = Kind /\ ph \in 0..4
CoherentInv == Coherent(A) /\ (B # NoGraph => Coherent(B)) /\ (C # NoGraph => Coherent(C))
(* a rejected request and a query never change any slot; other slots never move *)
StepProps ==
   /\ (last'.out = "raise" => <<A', B', C'>> = <<A, B, C>>)
   /\ (last'.op.name \in Queries => <<A', B', C'>> = <<A, B, C>>)
   /\ (last'.slot = "A" /\ last'.op.name \notin Derivers => <<B', C'>> = <<B, C>>)
   /\ (last'.slot = "A" /\ last'.op.name \in Derivers => A' = A)
   /\ (last'.slot = "B" => <<A', C'>> = <<A, C>>)
   /\ (last'.slot = "C" => <<A', B'>> = <<A, B>>)
   /\ (last'.slot = "BC" => A' = A /\ B' = B)
   \* the cover law of C17: a graph composed with one of its own induced subgraphs, in either order, is the graph again
   /\ (last'.op.name = "compose" /\ last'.out = "ok" /\ A.kind = Kind /\ B.kind = A.kind /\ B = Subgraph(A, Atoms(B)) => C' = A)
   /\ (last'.op.name = "remove_atom" /\ last'.out = "ok" /\ last'.slot = "A" =>
          last'.op.a \notin AllIds(A'))
StepInv == [][StepProps]_vars

(* ------------------------------ emission --------------------------------- *)
StoreJ(a, b, c, p) == JArr(<<GJ(a), GJ(b), GJ(c), JInt(p)>>)
Recv(l) == CASE l.slot = "A" -> A [] l.slot = "B" -> B [] l.slot = "C" -> C
             [] l.slot = "AB" -> A [] l.slot = "BA" -> B [] l.slot = "BC" -> B
EmitT ==
   PrintT("T|" \o StoreJ(A, B, C, ph) \o "#" \o StoreJ(A', B', C', ph') \o "#"
          \o JObj(<< JKV("slot", JStr(last'.slot)), JKV("op", OpJ(last'.op)),
                     JKV("out", JStr(last'.out)), JKV("ans", AnsJ(last'.ans)),
                     JKV("alts", JSetArr({ OutJ(o, Recv(last')) : o \in last'.alts })) >>))
EmitI == (TLCGet("level") = 1) => PrintT("I|" \o StoreJ(A, B, C, ph))
=============================================================================
