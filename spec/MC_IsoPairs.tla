---------------------------- MODULE MC_IsoPairs ----------------------------
(***************************************************************************)
(* Case families for equality / hashing / isomorphism enumeration /        *)
(* enantiomers (C01 C02 C03 C05 C06 C16).  TLC enumerates graphs of a      *)
(* family and ordered pairs of them, and prints for every pair the         *)
(* COMPLETE set of structure-preserving bijections (brute force by         *)
(* SMGIso!Isos) and whether the neighbourhood signatures differ; for every *)
(* stereo graph whether it is superimposable on its mirror image.          *)
(*   G|{fam, i, g}            one line per family member                   *)
(*   P|{fam, i, j, isos:[[..]], sigeq}   atoms of g_i in ascending order   *)
(*   E|{fam, i, achiral}                                                   *)
(***************************************************************************)
EXTENDS SMGFamilies, SMGIso, SMGEmit, SMGRefine

CONSTANTS SampleMod,  \* pairs with different invariants are sampled 1 in SampleMod
          WithPairs,  \* FALSE: only the family members and their mirror images
          WithLabels  \* TRUE: also the bijections under caller-supplied labels (C05)

(* cheap invariants: pairs that agree on them are always compared *)
ElBag(g) == { <<e, Cardinality({ a \in Atoms(g) : g.el[a] = e })>> : e \in { g.el[a] : a \in Atoms(g) } }
Invar(g) == <<Cardinality(Atoms(g)), Cardinality(Bonds(g)), ElBag(g)>>
InvSeq == [i \in 1..NFam |-> Invar(FamSeq[i])]
Sampled(i, j) == SampleMod > 0 /\ ((i * 7919 + j * 104729) % SampleMod) = 0

(* C16, second family: g and h are the two stereoisomers of a molecule with a single *)
(* stereogenic unit whose ligands are element-distinct (premises checked here)      *)
ElDistinct(g, S) == \A x, y \in S : x # y => g.el[x] # g.el[y]
SingleUnit(g) ==
   \/ /\ DOMAIN g.bst = {} /\ Cardinality(DOMAIN g.ast) = 1
      /\ LET a == CHOOSE x \in DOMAIN g.ast : TRUE
             d == g.ast[a] IN
         /\ d.cls = "Tetrahedral" /\ d.par \in {1, -1} /\ ~Mentions(d, NoAtom)
         /\ RealAtoms(d) \ {a} = Nbrs(g, a) /\ Cardinality(Nbrs(g, a)) = 4
         /\ ElDistinct(g, Nbrs(g, a))
   \/ /\ DOMAIN g.ast = {} /\ Cardinality(DOMAIN g.bst) = 1
      /\ LET b == CHOOSE x \in DOMAIN g.bst : TRUE
             d == g.bst[b] IN
         /\ d.cls = "PlanarBond" /\ d.par = 0 /\ ~Mentions(d, NoAtom)
         /\ ElDistinct(g, {d.atoms[1], d.atoms[2]}) /\ ElDistinct(g, {d.atoms[5], d.atoms[6]})
         /\ {d.atoms[1], d.atoms[2]} = Nbrs(g, d.atoms[3]) \ {d.atoms[4]}
         /\ {d.atoms[5], d.atoms[6]} = Nbrs(g, d.atoms[4]) \ {d.atoms[3]}
SingleUnitPair(g, h, S) ==
   /\ g.kind = "SMG" /\ S = {} /\ SingleUnit(g) /\ SingleUnit(h)
   /\ IsosL(g, h, g.el, h.el, FALSE, FALSE, FALSE) # {}     \* same constitution

AllDescr(g) == { g.ast[k] : k \in DOMAIN g.ast } \cup { g.bst[k] : k \in DOMAIN g.bst }
                \cup UNION { { g.ach[k][c] : c \in DOMAIN g.ach[k] } : k \in DOMAIN g.ach }
                \cup UNION { { g.bch[k][c] : c \in DOMAIN g.bch[k] } : k \in DOMAIN g.bch }
FullySpecified(g) == \A d \in AllDescr(g) : d.par # NoPar

VARIABLES ph, i, j
vars == <<ph, i, j>>
Init == ph = "start" /\ i = 0 /\ j = 0
Next == \/ ph = "start" /\ ph' = "row" /\ i' \in 1..NFam /\ j' = 0
        \/ WithPairs /\ ph = "row" /\ ph' = "pair" /\ i' = i
             /\ j' \in { x \in 1..NFam : InvSeq[x] = InvSeq[i] \/ Sampled(i, x) }
Spec == Init /\ [][Next]_vars

MapJ2(g, f) == JIntSeq([k \in 1..Len(SortedFrom(Atoms(g))) |-> f[SortedFrom(Atoms(g))[k]]])

Emit ==
   CASE ph = "row" ->
          LET g == FamSeq[i] IN
          /\ PrintT("G|" \o JObj(<< JKV("fam", JStr(Fam)), JKV("i", JInt(i)), JKV("g", GJ(g)),
                                     JKV("part", IF HasStereo(g.kind) THEN "null"
                                                 ELSE JSetArr({ JIds(c) : c \in Partition(g, TRUE) })) >>))
          /\ (HasStereo(g.kind) =>
                PrintT("E|" \o JObj(<< JKV("fam", JStr(Fam)), JKV("i", JInt(i)),
                                       JKV("achiral", JBool(Isos(g, Enantiomer(g)) # {})),
                                       JKV("mirror", GJ(Enantiomer(g))) >>)))
     [] ph = "pair" ->
          LET g == FamSeq[i]  h == FamSeq[j]  S == Isos(g, h) IN
          PrintT("P|" \o JObj(<< JKV("fam", JStr(Fam)), JKV("i", JInt(i)), JKV("j", JInt(j)),
                                 JKV("isos", JSetArr({ MapJ2(g, f) : f \in S })),
                                 JKV("spec", JBool(FullySpecified(g) /\ FullySpecified(h))),
                                 JKV("respell", JBool(\E f \in S : IsRespelling(g, h, f))),
                                 JKV("sigeq", JBool(Sig(g) = Sig(h))),
                                 \* caller-supplied labels replace the elements: parity of the identifier, and one label for all
                                 JKV("lab2", IF WithLabels /\ ~HasRoles(g.kind)
                                               THEN JSetArr({ MapJ2(g, f) : f \in IsosL(g, h, [a \in Atoms(g) |-> a % 2], [a \in Atoms(h) |-> a % 2],
                                                                                      FALSE, HasStereo(g.kind), FALSE) })
                                               ELSE "null"),
                                 JKV("lab1", IF WithLabels /\ ~HasRoles(g.kind)
                                               THEN JSetArr({ MapJ2(g, f) : f \in IsosL(g, h, [a \in Atoms(g) |-> 7], [a \in Atoms(h) |-> 7],
                                                                                      FALSE, HasStereo(g.kind), FALSE) })
                                               ELSE "null"),
                                 JKV("su", JBool(SingleUnitPair(g, h, S))),
                                 JKV("sigr", JBool(Sig(Reactant(g, FALSE)) = Sig(Reactant(h, FALSE)))),
                                 JKV("sigp", JBool(Sig(Product(g, FALSE)) = Sig(Product(h, FALSE)))),
                                 JKV("sigt", JBool(Sig(TSGraph(g)) = Sig(TSGraph(h)))) >>))
     [] OTHER -> TRUE

(* theorems about the oracle itself, checked on every enumerated pair *)
PairThm ==
   ph = "pair" =>
      LET g == FamSeq[i]  h == FamSeq[j]  S == Isos(g, h) IN
      /\ (i = j => S # {})                                            \* reflexive
      /\ Cardinality(S) = Cardinality(Isos(h, g))                     \* symmetric
      /\ (S # {} => Sig(g) = Sig(h))                                  \* Sig is an invariant
      \* design theorems of colour refinement WITH the own colour (the repaired design), plain and reaction graphs:
      \* isomorphic graphs get the same colour bag, and a different neighbourhood signature separates the bags
      /\ (~HasStereo(g.kind) /\ S # {} => ColourBag(g, TRUE) = ColourBag(h, TRUE))
      /\ (g.kind = "MG" /\ Sig(g) # Sig(h) => ColourBag(g, TRUE) # ColourBag(h, TRUE))
=============================================================================
