----------------------------- MODULE Obs_IsoPair -----------------------------
(***************************************************************************)
(* code -> spec: two graphs produced by the implementation for inputs that *)
(* the environment (RDKit) certifies to be the same / different            *)
(* stereoisomer.  record {id, g, h, same, strip}.  The spec decides by its *)
(* own complete search (SMGIso!Isos, atoms visited in BFS order) whether a *)
(* structure-preserving bijection exists; the identity is tried first.     *)
(* strip = TRUE removes PlanarBond descriptors named in o.keep (C14).      *)
(***************************************************************************)
EXTENDS SMGFromJson, SMGIso
IRecs == ndJsonDeserialize(IOEnv.OBS_FILE)
NShards == 64
IdMapOf(g) == [a \in Atoms(g) |-> a]
IVerdict(o) ==
   LET g == GofJ(o.g)  h == GofJ(o.h)
       idw == Atoms(g) = Atoms(h) /\ IsWitness(g, h, IdMapOf(g), HasRoles(g.kind), TRUE, HasChanges(g.kind))
       iso == idw \/ ExistsIso(g, h)
   IN [id |-> o.id, skeleton |-> ExistsIsoL(g, h, g.el, h.el, FALSE, FALSE, FALSE), iso |-> iso, rel |-> iso = o.same]
VARIABLES ishard, iidx
IInit == ishard = 0 /\ iidx = 0
INext == \/ ishard = 0 /\ ishard' \in 1..NShards /\ iidx' = 0
         \/ ishard > 0 /\ iidx = 0 /\ iidx' \in { k \in 1..Len(IRecs) : (k % NShards) + 1 = ishard } /\ UNCHANGED ishard
ISpec == IInit /\ [][INext]_<<ishard, iidx>>
IReport ==
   IF iidx = 0 THEN TRUE
   ELSE LET v == IVerdict(IRecs[iidx]) IN
        IF v.rel THEN PrintT("OK|" \o JInt(v.id))
        ELSE PrintT("BAD|" \o JObj(<< JKV("id", JInt(v.id)), JKV("skeleton", JBool(v.skeleton)), JKV("iso", JBool(v.iso)) >>))
=============================================================================
