SPECIFICATION DSpec
CONSTRAINT DReport
CHECK_DEADLOCK FALSE
