------------------------------ MODULE SMGEmit ------------------------------
(* JSON text of graphs, descriptors, ops and outcomes (spec -> harness).    *)
(* None atoms travel as NoAtom, parity None as NoPar (no JSON null), so the *)
(* same shape can be read back by TLC's JsonDeserialize in trace specs.     *)
EXTENDS SMGEdit, SMGJson

RECURSIVE SortedFrom(_)
SortedFrom(S) == IF S = {} THEN <<>>
                 ELSE LET x == CHOOSE y \in S : \A z \in S : y <= z IN <<x>> \o SortedFrom(S \ {x})
JIds(S) == JIntSeq(SortedFrom(S))
BLo(b) == CHOOSE x \in b : \A y \in b : x <= y
BHi(b) == CHOOSE x \in b : \A y \in b : x >= y

DJ(d) == JArr(<< JStr(d.cls), JIntSeq(d.atoms), JInt(d.par) >>)
AttJ(f) == JSetArr({ JArr(<<JStr(k), JInt(f[k])>>) : k \in DOMAIN f })
ChgJ(f) == JSetArr({ JArr(<<JStr(c), DJ(f[c])>>) : c \in DOMAIN f })

GJ(g) ==
  IF g.kind = "none" THEN "0" ELSE
  JObj(<<
    JKV("kind", JStr(g.kind)),
    JKV("atoms", JSetArr({ JArr(<<JInt(a), JInt(g.el[a]), AttJ(g.aat[a])>>) : a \in Atoms(g) })),
    JKV("bonds", JSetArr({ JArr(<<JInt(BLo(b)), JInt(BHi(b)), JStr(g.bd[b].role), AttJ(g.bd[b].at)>>) : b \in Bonds(g) })),
    JKV("ast", JSetArr({ JArr(<<JInt(a), DJ(g.ast[a])>>) : a \in DOMAIN g.ast })),
    JKV("bst", JSetArr({ JArr(<<JInt(BLo(b)), JInt(BHi(b)), DJ(g.bst[b])>>) : b \in DOMAIN g.bst })),
    JKV("ach", JSetArr({ JArr(<<JInt(a), ChgJ(g.ach[a])>>) : a \in DOMAIN g.ach })),
    JKV("bch", JSetArr({ JArr(<<JInt(BLo(b)), JInt(BHi(b)), ChgJ(g.bch[b])>>) : b \in DOMAIN g.bch })),
    JKV("comp", JSetArr({ JIds(c) : c \in Components(g) })),
    JKV("valid", JBool(StereoValid(g))),
    \* a descriptor over a missing atom / bond, or a change on a side where the bond does not exist:
    \* ==, hash, reactant, product may refuse such a graph (see Outcomes)
    JKV("odd", JBool(Dangling(g) \/ IllFormedSides(g))) >>)

MapJ(m) == JSetArr({ JArr(<<JInt(x), JInt(m[x])>>) : x \in DOMAIN m })

OpJ(op) == JObj(<<
    JKV("name", JStr(op.name)), JKV("a", JInt(op.a)), JKV("b", JInt(op.b)), JKV("e", JInt(op.e)),
    JKV("k", JStr(op.k)), JKV("v", JInt(op.v)),
    JKV("d", DJ(op.d)), JKV("db", DJ(op.db)), JKV("dl", DJ(op.dl)), JKV("df", DJ(op.df)),
    JKV("m", MapJ(op.m)), JKV("S", JIds(op.S)), JKV("ch", JStr(op.ch)), JKV("tk", JStr(op.tk)),
    JKV("flag", JBool(op.flag)) >>)

AnsJ(a) == JObj(<< JKV("t", JStr(a.t)), JKV("b", JBool(a.b)), JKV("i", JInt(a.i)),
                   JKV("s", JIds(a.s)), JKV("d", DJ(a.d)), JKV("c", ChgJ(a.c)) >>)

(* outcome relative to the receiver g0: "=" when the receiver is unchanged *)
OutJ(o, g0) == JObj(<< JKV("out", JStr(o.out)), JKV("ans", AnsJ(o.ans)),
                       JKV("g", IF o.g = g0 THEN JStr("=") ELSE GJ(o.g)),
                       JKV("res", GJ(o.res)) >>)
=============================================================================
