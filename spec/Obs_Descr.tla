------------------------------ MODULE Obs_Descr ------------------------------
(* code -> spec: pairs of descriptors produced by the implementation with the *)
(* relation they must have: record {id, a:[cls,atoms,par], b:[..], same}.      *)
(* same = TRUE : a and b must denote the same spatial arrangement (DEq)        *)
(* same = FALSE: they must not.                                                *)
EXTENDS SMGFromJson
DRecs == ndJsonDeserialize(IOEnv.OBS_FILE)
NShards == 64
DVerdict(o) == [id |-> o.id, wf |-> WellFormed(DofJ(o.a)) /\ WellFormed(DofJ(o.b)),
                rel |-> DEq(DofJ(o.a), DofJ(o.b)) = o.same]
VARIABLES dshard, didx
DInit == dshard = 0 /\ didx = 0
DNext == \/ dshard = 0 /\ dshard' \in 1..NShards /\ didx' = 0
         \/ dshard > 0 /\ didx = 0 /\ didx' \in { k \in 1..Len(DRecs) : (k % NShards) + 1 = dshard } /\ UNCHANGED dshard
DSpec == DInit /\ [][DNext]_<<dshard, didx>>
DReport ==
   IF didx = 0 THEN TRUE
   ELSE LET v == DVerdict(DRecs[didx]) IN
        IF v.wf /\ v.rel THEN PrintT("OK|" \o JInt(v.id))
        ELSE PrintT("BAD|" \o JObj(<< JKV("id", JInt(v.id)), JKV("wf", JBool(v.wf)), JKV("rel", JBool(v.rel)) >>))
=============================================================================
