-------------------------------- MODULE MC_VF2 --------------------------------
(* Model checking of the VF2++ loop over ALL pairs of labelled graphs on <= NMax atoms with two labels and  *)
(* ALL admissible matching orders (every atom is adjacent to an earlier one, or starts a new component      *)
(* when no earlier atom of its component exists... as produced by _matching_order's BFS).                   *)
EXTENDS VF2
CONSTANTS NMax, FullChoice, AnyOrder, Prefilter   \* Prefilter: only instances with equal bond counts and label bags (the others end at once)
\*     \* FullChoice: explore every order in which candidates may be taken
PairSet(S) == { b \in SUBSET S : Cardinality(b) = 2 }
AdjOf(S, B) == [a \in S |-> { x \in S : {a, x} \in B }]
OrdersOf(S, adj) == { o \in [1..Cardinality(S) -> S] : { o[i] : i \in DOMAIN o } = S /\ (AnyOrder \/ Admissible(S, adj, o)) }
(* instances are chosen in two steps so that the workers share them: first a shard, then an instance of it *)
NoInst == [n1 |-> {}, n2 |-> {}, adj1 |-> <<>>, adj2 |-> <<>>, lab1 |-> <<>>, lab2 |-> <<>>, order |-> <<>>, shard |-> <<-1, {}>>] @@ Plain
Shards == { <<n, B1>> : n \in 0..NMax, B1 \in SUBSET PairSet(1..NMax) }
InstancesOf(n, B1) ==
   IF ~(B1 \subseteq PairSet(1..n)) THEN {}
   ELSE LET Labs == [1..n -> {1, 6}]
            Cnt(l, c) == Cardinality({ a \in 1..n : l[a] = c }) IN
        { [n1 |-> 1..n, n2 |-> 1..n, adj1 |-> AdjOf(1..n, B1), adj2 |-> AdjOf(1..n, B2), lab1 |-> ll[1], lab2 |-> ll[2], order |-> o] @@ Plain :
             B2 \in { b2 \in SUBSET PairSet(1..n) : Prefilter => Cardinality(b2) = Cardinality(B1) },
             ll \in { p \in Labs \X Labs : Prefilter => Cnt(p[1], 1) = Cnt(p[2], 1) },
             o \in OrdersOf(1..n, AdjOf(1..n, B1)) }
Init == /\ P = NoInst /\ mapping = <<>> /\ fr1 = {} /\ ex1 = {} /\ fr2 = {} /\ ex2 = {}
        /\ stack = <<>> /\ done = FALSE /\ found = <<>>
PickShard == /\ P = NoInst /\ \E sh \in Shards : P' = [NoInst EXCEPT !.shard = sh]
             /\ UNCHANGED <<mapping, fr1, ex1, fr2, ex2, stack, done, found>>
PickInstance == /\ "shard" \in DOMAIN P /\ P.shard[1] >= 0
                /\ \E p \in InstancesOf(P.shard[1], P.shard[2]) : ChooseInstance(p)
Running == "shard" \notin DOMAIN P
NextAlg == IF FullChoice THEN Next
           ELSE Pop \/ (stack # <<>> /\ Top[2] # {} /\ Try(CHOOSE v \in Top[2] : \A w \in Top[2] : v <= w))
NextMC == PickShard \/ PickInstance \/ (Running /\ NextAlg)
Spec == Init /\ [][NextMC]_vars
(* the invariants only speak about running instances *)
IBookkeeping == Running => Bookkeeping
IPartialIso == Running => PartialIso
IStackShape == Running => StackShape
IExact == Running => Exact
=============================================================================
