------------------------------- MODULE MC_Conn -------------------------------
(***************************************************************************)
(* C20, connectivity half: geometries on the integer lattice (unit 0.01 A) *)
(* with the expected bond set                                              *)
(*        bonded(i,j)  <=>  d(i,j) < 1.2 * (r_i + r_j)                     *)
(* evaluated in exact integer arithmetic.  The covalent radii (Pyykko &    *)
(* Atsumi 2009, single-bond radii, in 0.01 A) are spec data for the        *)
(* elements used here.  Cases whose squared distance is within Margin of a *)
(* squared cutoff are not generated (general position).                    *)
(***************************************************************************)
EXTENDS Integers, Sequences, FiniteSets, TLC, SMGJson

CONSTANTS NAtoms, SampleMod, PairMode     \* PairMode: all ordered element pairs at 0.9 / 1.1 of the cutoff

(* single-bond covalent radii of all 118 elements in 0.01 A (Pyykko & Atsumi, Chem. Eur. J. 2009, 15, 12770,
   as tabulated in stereomolgraph.periodic_table at the pinned commit; frozen here as spec data) *)
RadiusTable == <<32, 46, 133, 102, 85, 75, 71, 63, 64, 67, 155, 139, 126, 116, 111, 103, 99, 96, 196, 171, 148, 136, 134, 122, 119, 116, 111, 110, 112, 118, 124, 121, 121, 116, 114, 117, 210, 185, 163, 154, 147, 138, 128, 125, 125, 120, 128, 136, 142, 140, 140, 136, 133, 131, 232, 196, 180, 163, 176, 174, 173, 172, 168, 169, 168, 167, 166, 165, 164, 170, 162, 152, 146, 137, 131, 129, 122, 123, 124, 133, 144, 144, 151, 145, 147, 142, 223, 201, 186, 175, 169, 170, 171, 172, 166, 166, 168, 168, 165, 167, 173, 176, 161, 157, 149, 143, 141, 134, 129, 128, 121, 122, 136, 143, 162, 175, 165, 157>>
Radius(e) == RadiusTable[e]
Els == <<1, 6, 8, 17, 78, 53>>
Pool == << <<0,0,0>>, <<95,0,0>>, <<110,0,0>>, <<152,0,0>>, <<0,121,0>>, <<0,183,0>>, <<101,100,0>>,
           <<0,0,143>>, <<232,0,0>>, <<151,150,149>>, <<-88,3,7>>, <<40,-60,210>> >>
D2(p, q) == (p[1]-q[1])*(p[1]-q[1]) + (p[2]-q[2])*(p[2]-q[2]) + (p[3]-q[3])*(p[3]-q[3])
(* d < 1.2 (ri+rj)  <=>  100 d^2 < 144 (ri+rj)^2 *)
Lhs(p, q) == 100 * D2(p, q)
Rhs(e, f) == 144 * (Radius(e) + Radius(f)) * (Radius(e) + Radius(f))
Margin == 40000          \* ~ 0.01 A around a typical cutoff

VARIABLES pts, els
vars == <<pts, els>>
Idx == 1..NAtoms
Clear == \A i, j \in Idx : i < j =>
            LET x == Lhs(Pool[pts[i]], Pool[pts[j]]) - Rhs(Els[els[i]], Els[els[j]]) IN x > Margin \/ x < -Margin
Code == (pts[1] * 7 + pts[NAtoms] * 13 + els[1] * 31 + els[NAtoms] * 101
         + (IF NAtoms > 2 THEN pts[2] * 17 + els[2] * 3 ELSE 0))
(* pair mode: els = <<e1, e2>> over ALL elements, pts = <<1, k>> with k = 1 (inside) or 2 (outside the cutoff) *)
Cut100(e, f) == (12 * (Radius(e) + Radius(f))) \div 10            \* cutoff in 0.01 A, rounded down
PairPoint(e, f, k) == IF k = 1 THEN <<(Cut100(e, f) * 9) \div 10, 0, 0>> ELSE <<(Cut100(e, f) * 11) \div 10 + 2, 0, 0>>
Init == IF PairMode
          THEN /\ els \in [1..2 -> 1..118] /\ pts \in { <<1, 1>>, <<1, 2>> }
               /\ (SampleMod <= 1 \/ (els[1] * 119 + els[2] + pts[2]) % SampleMod = 0)
          ELSE /\ pts \in [Idx -> 1..Len(Pool)] /\ \A i, j \in Idx : i < j => pts[i] < pts[j]
               /\ els \in [Idx -> 1..Len(Els)]
               /\ (SampleMod <= 1 \/ Code % SampleMod = 0)
               /\ Clear
Next == UNCHANGED vars
Spec == Init /\ [][Next]_vars

ElOf(i) == IF PairMode THEN els[i] ELSE Els[els[i]]
PtOf(i) == IF PairMode THEN (IF i = 1 THEN <<0, 0, 0>> ELSE PairPoint(els[1], els[2], pts[2])) ELSE Pool[pts[i]]
Bonded(i, j) == i # j /\ Lhs(PtOf(i), PtOf(j)) < Rhs(ElOf(i), ElOf(j))
Emit == PrintT("K|" \o JObj(<<
   JKV("els", JIntSeq([i \in Idx |-> ElOf(i)])),
   JKV("pts", JArr([i \in Idx |-> JIntSeq(PtOf(i))])),
   JKV("cut1000", IF PairMode THEN JInt(12 * (Radius(els[1]) + Radius(els[2]))) ELSE "0"),   \* cutoff in 0.001 A, exact
   JKV("bonds", JSetArr({ JIntSeq(<<q[1], q[2]>>) : q \in { r \in Idx \X Idx : r[1] < r[2] /\ Bonded(r[1], r[2]) } })) >>))
=============================================================================
