------------------------------- MODULE MC_Conn -------------------------------
(***************************************************************************)
(* C20, connectivity half: geometries on the integer lattice (unit 0.01 A) *)
(* with the expected bond set                                              *)
(*        bonded(i,j)  <=>  d(i,j) < 1.2 * (r_i + r_j)                     *)
(* evaluated in exact integer arithmetic.  The covalent radii (Pyykko &    *)
(* Atsumi 2009, single-bond radii, in 0.01 A) are spec data for the        *)
(* elements used here.  Cases whose squared distance is within Margin of a *)
(* squared cutoff are not generated (general position).                    *)
(***************************************************************************)
EXTENDS Integers, Sequences, FiniteSets, TLC, SMGJson

CONSTANTS NAtoms, SampleMod

Radius(e) == CASE e = 1 -> 32 [] e = 6 -> 75 [] e = 7 -> 71 [] e = 8 -> 63 [] e = 9 -> 64 [] e = 15 -> 111
               [] e = 16 -> 103 [] e = 17 -> 99 [] e = 35 -> 114 [] e = 53 -> 133 [] e = 78 -> 123 [] e = 11 -> 155
Els == <<1, 6, 8, 17, 78, 53>>
Pool == << <<0,0,0>>, <<95,0,0>>, <<110,0,0>>, <<152,0,0>>, <<0,121,0>>, <<0,183,0>>, <<101,100,0>>,
           <<0,0,143>>, <<232,0,0>>, <<151,150,149>>, <<-88,3,7>>, <<40,-60,210>> >>
D2(p, q) == (p[1]-q[1])*(p[1]-q[1]) + (p[2]-q[2])*(p[2]-q[2]) + (p[3]-q[3])*(p[3]-q[3])
(* d < 1.2 (ri+rj)  <=>  100 d^2 < 144 (ri+rj)^2 *)
Lhs(p, q) == 100 * D2(p, q)
Rhs(e, f) == 144 * (Radius(e) + Radius(f)) * (Radius(e) + Radius(f))
Margin == 40000          \* ~ 0.01 A around a typical cutoff

VARIABLES pts, els
vars == <<pts, els>>
Idx == 1..NAtoms
Clear == \A i, j \in Idx : i < j =>
            LET x == Lhs(Pool[pts[i]], Pool[pts[j]]) - Rhs(Els[els[i]], Els[els[j]]) IN x > Margin \/ x < -Margin
Code == (pts[1] * 7 + pts[NAtoms] * 13 + els[1] * 31 + els[NAtoms] * 101
         + (IF NAtoms > 2 THEN pts[2] * 17 + els[2] * 3 ELSE 0))
Init == /\ pts \in [Idx -> 1..Len(Pool)] /\ \A i, j \in Idx : i < j => pts[i] < pts[j]
        /\ els \in [Idx -> 1..Len(Els)]
        /\ (SampleMod <= 1 \/ Code % SampleMod = 0)
        /\ Clear
Next == UNCHANGED vars
Spec == Init /\ [][Next]_vars

Bonded(i, j) == i # j /\ Lhs(Pool[pts[i]], Pool[pts[j]]) < Rhs(Els[els[i]], Els[els[j]])
Emit == PrintT("K|" \o JObj(<<
   JKV("els", JIntSeq([i \in Idx |-> Els[els[i]]])),
   JKV("pts", JArr([i \in Idx |-> JIntSeq(Pool[pts[i]])])),
   JKV("bonds", JSetArr({ JIntSeq(<<q[1], q[2]>>) : q \in { r \in Idx \X Idx : r[1] < r[2] /\ Bonded(r[1], r[2]) } })) >>))
=============================================================================
