----------------------------- MODULE SMGStereo -----------------------------
(***************************************************************************)
(* Stereodescriptor theory from first principles.                          *)
(*                                                                         *)
(* Every descriptor class is DEFINED by its idealised coordination figure  *)
(* with integer coordinates.  The symmetry group of a class is DERIVED     *)
(* from that geometry (distance preserving permutations of the positions;  *)
(* proper ones preserve every orientation determinant, improper ones       *)
(* negate every one).  Nothing here is copied from the implementation's    *)
(* permutation tables.                                                     *)
(*                                                                         *)
(* Positions are 1-based here (TLA+ sequences); the implementation is      *)
(* 0-based.  A descriptor is [cls, atoms, par]; par \in {-1,0,1,NoPar}.    *)
(***************************************************************************)
EXTENDS Integers, Sequences, FiniteSets, TLC

NoPar  == 2              \* "parity is None"
NoAtom == -999999999     \* "None" inside an atom tuple (lone pair placeholder)

Classes == {"Tetrahedral", "SquarePlanar", "TrigonalBipyramidal",
            "Octahedral", "PlanarBond", "AtropBond"}
AtomClasses == {"Tetrahedral", "SquarePlanar", "TrigonalBipyramidal", "Octahedral"}
BondClasses == {"PlanarBond", "AtropBond"}

(* position -> integer point; centre / bond atoms included *)
Figure(c) ==
  CASE c = "Tetrahedral" ->
         << <<0,0,0>>, <<1,1,1>>, <<1,-1,-1>>, <<-1,1,-1>>, <<-1,-1,1>> >>
    [] c = "SquarePlanar" ->
         << <<0,0,0>>, <<1,0,0>>, <<0,1,0>>, <<-1,0,0>>, <<0,-1,0>> >>
    [] c = "TrigonalBipyramidal" ->
         << <<0,0,0>>, <<1,1,1>>, <<-1,-1,-1>>, <<1,-1,0>>, <<0,1,-1>>, <<-1,0,1>> >>
    [] c = "Octahedral" ->
         << <<0,0,0>>, <<0,0,1>>, <<0,0,-1>>, <<1,0,0>>, <<0,1,0>>, <<-1,0,0>>, <<0,-1,0>> >>
    [] c = "PlanarBond" ->
         << <<-2,1,0>>, <<-2,-1,0>>, <<-1,0,0>>, <<1,0,0>>, <<2,1,0>>, <<2,-1,0>> >>
    [] c = "AtropBond" ->
         << <<-2,0,1>>, <<-2,0,-1>>, <<-1,0,0>>, <<1,0,0>>, <<2,-1,0>>, <<2,1,0>> >>

Arity(c) == Len(Figure(c))

(* parities a descriptor of the class may carry when it is specified *)
ClassParities(c) == IF c \in {"SquarePlanar", "PlanarBond"} THEN {0} ELSE {1, -1}

Sub(p, q) == << p[1]-q[1], p[2]-q[2], p[3]-q[3] >>
Dot(p, q) == p[1]*q[1] + p[2]*q[2] + p[3]*q[3]
D2(p, q)  == Dot(Sub(p,q), Sub(p,q))
Det3(a, b, c) ==   a[1]*(b[2]*c[3] - b[3]*c[2])
                 - a[2]*(b[1]*c[3] - b[3]*c[1])
                 + a[3]*(b[1]*c[2] - b[2]*c[1])
Sign(x) == IF x > 0 THEN 1 ELSE IF x < 0 THEN -1 ELSE 0

(* orientation of the ordered position quadruple in the figure F *)
Orient(F, i, j, k, l) == Sign(Det3(Sub(F[j],F[i]), Sub(F[k],F[i]), Sub(F[l],F[i])))

Perms(n) == Permutations(1..n)      \* TLC builtin: all bijections on 1..n

(* isometries of the figure, as permutations of positions *)
SymOf(F) == { pi \in Perms(Len(F)) :
                \A i, j \in 1..Len(F) : i < j => D2(F[i],F[j]) = D2(F[pi[i]],F[pi[j]]) }

Quads(n) == { q \in (1..n) \X (1..n) \X (1..n) \X (1..n) :
                q[1] < q[2] /\ q[2] < q[3] /\ q[3] < q[4] }

ProperOf(F, S) == { pi \in S : \A q \in Quads(Len(F)) :
     Orient(F, pi[q[1]], pi[q[2]], pi[q[3]], pi[q[4]]) = Orient(F, q[1], q[2], q[3], q[4]) }
ImproperOf(F, S) == { pi \in S : \A q \in Quads(Len(F)) :
     Orient(F, pi[q[1]], pi[q[2]], pi[q[3]], pi[q[4]]) = - Orient(F, q[1], q[2], q[3], q[4]) }

(* The three groups, computed once per class (TLC caches zero-arity defs) *)
SymTet == SymOf(Figure("Tetrahedral"))
SymSP  == SymOf(Figure("SquarePlanar"))
SymTBP == SymOf(Figure("TrigonalBipyramidal"))
SymOct == SymOf(Figure("Octahedral"))
SymPB  == SymOf(Figure("PlanarBond"))
SymAB  == SymOf(Figure("AtropBond"))
Sym(c) == CASE c = "Tetrahedral" -> SymTet [] c = "SquarePlanar" -> SymSP
            [] c = "TrigonalBipyramidal" -> SymTBP [] c = "Octahedral" -> SymOct
            [] c = "PlanarBond" -> SymPB [] c = "AtropBond" -> SymAB

PrTet == ProperOf(Figure("Tetrahedral"), SymTet)
PrSP  == ProperOf(Figure("SquarePlanar"), SymSP)
PrTBP == ProperOf(Figure("TrigonalBipyramidal"), SymTBP)
PrOct == ProperOf(Figure("Octahedral"), SymOct)
PrPB  == ProperOf(Figure("PlanarBond"), SymPB)
PrAB  == ProperOf(Figure("AtropBond"), SymAB)
Proper(c) == CASE c = "Tetrahedral" -> PrTet [] c = "SquarePlanar" -> PrSP
            [] c = "TrigonalBipyramidal" -> PrTBP [] c = "Octahedral" -> PrOct
            [] c = "PlanarBond" -> PrPB [] c = "AtropBond" -> PrAB

ImTet == ImproperOf(Figure("Tetrahedral"), SymTet)
ImSP  == ImproperOf(Figure("SquarePlanar"), SymSP)
ImTBP == ImproperOf(Figure("TrigonalBipyramidal"), SymTBP)
ImOct == ImproperOf(Figure("Octahedral"), SymOct)
ImPB  == ImproperOf(Figure("PlanarBond"), SymPB)
ImAB  == ImproperOf(Figure("AtropBond"), SymAB)
Improper(c) == CASE c = "Tetrahedral" -> ImTet [] c = "SquarePlanar" -> ImSP
            [] c = "TrigonalBipyramidal" -> ImTBP [] c = "Octahedral" -> ImOct
            [] c = "PlanarBond" -> ImPB [] c = "AtropBond" -> ImAB

Chiral(c) == Proper(c) \cap Improper(c) = {}

(* t o pi : the arrangement that has at position i what t has at pi[i] *)
ArrPerm(t, pi) == [i \in 1..Len(t) |-> t[pi[i]]]

IdPerm(n) == [i \in 1..n |-> i]
PermMul(p, q) == [i \in DOMAIN p |-> p[q[i]]]
PermInv(p) == [i \in DOMAIN p |-> CHOOSE j \in DOMAIN p : p[j] = i]
IsGroup(G, n) == /\ IdPerm(n) \in G
                 /\ \A p, q \in G : PermMul(p, q) \in G
                 /\ \A p \in G : PermInv(p) \in G

SeqRange(s) == { s[i] : i \in DOMAIN s }

(***************************************************************************)
(* Descriptor equality: same spatial arrangement.                          *)
(***************************************************************************)
SameArr(c, t1, p1, t2, p2) ==
   \/ /\ p1 = p2
      /\ \E pi \in Proper(c) : t2 = ArrPerm(t1, pi)
   \/ /\ p1 = -p2
      /\ \E pi \in Improper(c) : t2 = ArrPerm(t1, pi)

IsPermOf(t1, t2) ==
   /\ Len(t1) = Len(t2)
   /\ \A x \in SeqRange(t1) \cup SeqRange(t2) :
        Cardinality({i \in DOMAIN t1 : t1[i] = x}) = Cardinality({i \in DOMAIN t2 : t2[i] = x})

(* d1, d2 : [cls, atoms, par] *)
DEq(d1, d2) ==
   /\ d1.cls = d2.cls
   /\ Len(d1.atoms) = Len(d2.atoms)
   /\ IF d1.par = NoPar \/ d2.par = NoPar
        THEN SeqRange(d1.atoms) = SeqRange(d2.atoms)
        ELSE SameArr(d1.cls, d1.atoms, d1.par, d2.atoms, d2.par)

(* strict form used where parities must also agree literally *)
DEqStrict(d1, d2) ==
   /\ d1.cls = d2.cls
   /\ Len(d1.atoms) = Len(d2.atoms)
   /\ IF d1.par = NoPar \/ d2.par = NoPar
        THEN d1.par = d2.par /\ IsPermOf(d1.atoms, d2.atoms)
        ELSE SameArr(d1.cls, d1.atoms, d1.par, d2.atoms, d2.par)

Invert(d) == IF d.par \in {1, -1} THEN [d EXCEPT !.par = -d.par] ELSE d

Centre(d) == IF d.cls \in AtomClasses THEN d.atoms[1] ELSE NoAtom
BondOf(d) == IF d.cls \in BondClasses THEN {d.atoms[3], d.atoms[4]} ELSE {}

WellFormed(d) ==
   /\ d.cls \in Classes
   /\ Len(d.atoms) = Arity(d.cls)
   /\ d.par \in ClassParities(d.cls) \cup {NoPar}

(***************************************************************************)
(* Canonical key of the equivalence class of (t, p): an integer.  Atoms    *)
(* are small naturals here (1..9), NoAtom is coded 0.                      *)
(***************************************************************************)
Code(x) == IF x = NoAtom THEN 0 ELSE x
RECURSIVE EncFrom(_, _)
EncFrom(t, i) == IF i > Len(t) THEN 0 ELSE Code(t[i]) + 10 * EncFrom(t, i+1)
Enc(t) == EncFrom(t, 1)
MinOf(S) == CHOOSE x \in S : \A y \in S : x <= y

(* canonical parity-(+1 or 0) form, then least code over the proper group *)
ClassKey(c, t, p) ==
   IF p = -1
     THEN LET s == CHOOSE pi \in Improper(c) : TRUE
          IN  MinOf({ Enc(ArrPerm(ArrPerm(t, s), pi)) : pi \in Proper(c) })
     ELSE MinOf({ Enc(ArrPerm(t, pi)) : pi \in Proper(c) })

=============================================================================
