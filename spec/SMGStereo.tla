----------------------------- MODULE SMGStereo -----------------------------
(***************************************************************************)
(* Stereodescriptor theory.  The idealised coordination figures and the    *)
(* derivation of their symmetry groups from geometry live in SMGFigures.   *)
(* TLC does not cache those (expensive) constant definitions, so the       *)
(* groups are tabulated once by TLC itself into the generated module       *)
(* SMGGroups (tools/gen_groups.py); MC_StereoCases checks, as an ASSUME,   *)
(* that every table equals the group derived from the figure.              *)
(***************************************************************************)
EXTENDS SMGFigures, SMGGroups

Sym(c)      == GSym(c)
Proper(c)   == GProper(c)
Improper(c) == GImproper(c)

Chiral(c) == Proper(c) \cap Improper(c) = {}

(* t o pi : the arrangement that has at position i what t has at pi[i] *)
ArrPerm(t, pi) == [i \in 1..Len(t) |-> t[pi[i]]]

IdPerm(n) == [i \in 1..n |-> i]
PermMul(p, q) == [i \in DOMAIN p |-> p[q[i]]]
PermInv(p) == [i \in DOMAIN p |-> CHOOSE j \in DOMAIN p : p[j] = i]
IsGroup(G, n) == /\ IdPerm(n) \in G
                 /\ \A p, q \in G : PermMul(p, q) \in G
                 /\ \A p \in G : PermInv(p) \in G

SeqRange(s) == { s[i] : i \in DOMAIN s }

(***************************************************************************)
(* Descriptor equality: same spatial arrangement.                          *)
(***************************************************************************)
SameArr(c, t1, p1, t2, p2) ==
   \/ /\ p1 = p2
      /\ \E pi \in Proper(c) : t2 = ArrPerm(t1, pi)
   \/ /\ p1 = -p2
      /\ \E pi \in Improper(c) : t2 = ArrPerm(t1, pi)

IsPermOf(t1, t2) ==
   /\ Len(t1) = Len(t2)
   /\ \A x \in SeqRange(t1) \cup SeqRange(t2) :
        Cardinality({i \in DOMAIN t1 : t1[i] = x}) = Cardinality({i \in DOMAIN t2 : t2[i] = x})

(* d1, d2 : [cls, atoms, par] *)
DEq(d1, d2) ==
   /\ d1.cls = d2.cls
   /\ Len(d1.atoms) = Len(d2.atoms)
   /\ IF d1.par = NoPar \/ d2.par = NoPar
        THEN SeqRange(d1.atoms) = SeqRange(d2.atoms)
        ELSE SameArr(d1.cls, d1.atoms, d1.par, d2.atoms, d2.par)

(* strict form used where parities must also agree literally *)
DEqStrict(d1, d2) ==
   /\ d1.cls = d2.cls
   /\ Len(d1.atoms) = Len(d2.atoms)
   /\ IF d1.par = NoPar \/ d2.par = NoPar
        THEN d1.par = d2.par /\ IsPermOf(d1.atoms, d2.atoms)
        ELSE SameArr(d1.cls, d1.atoms, d1.par, d2.atoms, d2.par)

Invert(d) == IF d.par \in {1, -1} THEN [d EXCEPT !.par = -d.par] ELSE d

Centre(d) == IF d.cls \in AtomClasses THEN d.atoms[1] ELSE NoAtom
BondOf(d) == IF d.cls \in BondClasses THEN {d.atoms[3], d.atoms[4]} ELSE {}

WellFormed(d) ==
   /\ d.cls \in Classes
   /\ Len(d.atoms) = Arity(d.cls)
   /\ d.par \in ClassParities(d.cls) \cup {NoPar}

(***************************************************************************)
(* Canonical key of the equivalence class of (t, p): an integer.  Atoms    *)
(* are small naturals here (1..9), NoAtom is coded 0.                      *)
(***************************************************************************)
Code(x) == IF x = NoAtom THEN 0 ELSE x
RECURSIVE EncFrom(_, _)
EncFrom(t, i) == IF i > Len(t) THEN 0 ELSE Code(t[i]) + 10 * EncFrom(t, i+1)
Enc(t) == EncFrom(t, 1)
MinOf(S) == CHOOSE x \in S : \A y \in S : x <= y

(* canonical parity-(+1 or 0) form, then least code over the proper group *)
ClassKey(c, t, p) ==
   IF p = -1
     THEN LET s == CHOOSE pi \in Improper(c) : TRUE
          IN  MinOf({ Enc(ArrPerm(ArrPerm(t, s), pi)) : pi \in Proper(c) })
     ELSE MinOf({ Enc(ArrPerm(t, pi)) : pi \in Proper(c) })

=============================================================================
