SPECIFICATION MSpec
CONSTRAINT MReport
CHECK_DEADLOCK FALSE
