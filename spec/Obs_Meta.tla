------------------------------- MODULE Obs_Meta -------------------------------
(***************************************************************************)
(* code -> spec, metamorphic relations with a KNOWN atom correspondence:   *)
(* record {id, g0, g1, sigma, mirror}: g1 was obtained from a transformed  *)
(* copy of the input that produced g0 (rigid motion, atom permutation      *)
(* sigma, reflection; or an RDKit renumbering).  Clauses, all decided with *)
(* the known sigma as witness - no search, no use of the library's ==:     *)
(*   atoms/bonds : g1 has the renamed atoms, elements and bonds            *)
(*   stereo      : every descriptor is the renamed (and, for a reflection, *)
(*                 inverted) descriptor up to its symmetry                 *)
(*   valid       : every descriptor of g1 names its centre and bonded      *)
(*                 neighbours (StereoValid)                                *)
(***************************************************************************)
EXTENDS SMGFromJson

MRecs == ndJsonDeserialize(IOEnv.OBS_FILE)
NShards == 64

MVerdict(o) ==
   LET g0 == GofJ(o.g0)  g1 == GofJ(o.g1)  m == PairsToFun(o.sigma)
       want0 == Relabel(g0, m)
       want == IF o.mirror THEN Enantiomer(want0) ELSE want0
   IN [id |-> o.id,
       renamable |-> RelabelOK(g0, m),
       atoms  |-> g1.el = want.el,
       bonds  |-> DOMAIN g1.bd = DOMAIN want.bd /\ \A b \in DOMAIN g1.bd : g1.bd[b].role = want.bd[b].role,
       \* mode 0: everything; mode 1: atom-centred descriptors only (C13 without regenerated bond orders);
       \* mode 2: atom-centred descriptors and the bond descriptors of the bonds listed in o.keep
       stereo |-> /\ SameDescrMap(g1.ast, want.ast)
                  /\ CASE o.mode = 0 -> SameDescrMap(g1.bst, want.bst)
                                         /\ SameChangeMap(g1.ach, want.ach) /\ SameChangeMap(g1.bch, want.bch)
                       [] o.mode = 1 -> TRUE
                       [] OTHER -> LET K == { {o.keep[i][1], o.keep[i][2]} : i \in DOMAIN o.keep } IN
                                   \A b \in K : b \in DOMAIN want.bst =>
                                        b \in DOMAIN g1.bst /\ DEqStrict(g1.bst[b], want.bst[b]),
       valid  |-> o.mode # 0 \/ (StereoValid(g1) /\ ~Dangling(g1))]
MGood(v) == v.renamable /\ v.atoms /\ v.bonds /\ v.stereo /\ v.valid

VARIABLES mshard, midx
MInit == mshard = 0 /\ midx = 0
MNext == \/ mshard = 0 /\ mshard' \in 1..NShards /\ midx' = 0
         \/ mshard > 0 /\ midx = 0 /\ midx' \in { k \in 1..Len(MRecs) : (k % NShards) + 1 = mshard } /\ UNCHANGED mshard
MSpec == MInit /\ [][MNext]_<<mshard, midx>>
MReport ==
   IF midx = 0 THEN TRUE
   ELSE LET v == MVerdict(MRecs[midx]) IN
        IF MGood(v) THEN PrintT("OK|" \o JInt(v.id))
        ELSE PrintT("BAD|" \o JObj(<< JKV("id", JInt(v.id)), JKV("renamable", JBool(v.renamable)), JKV("atoms", JBool(v.atoms)),
                                      JKV("bonds", JBool(v.bonds)), JKV("stereo", JBool(v.stereo)), JKV("valid", JBool(v.valid)) >>))
=============================================================================
