----------------------------- MODULE MC_Transform -----------------------------
(***************************************************************************)
(* Certified partners for graphs recorded from the real code (imported     *)
(* corpus molecules, 10-40 atoms).  For every input graph g and variant v  *)
(* the spec GENERATES a partner h and CERTIFIES the relation:              *)
(*   respell : every descriptor rewritten through a symmetry element of    *)
(*             its class (improper ones with the parity negated), then the *)
(*             atoms renamed by an affine bijection: h is g re-expressed   *)
(*             (C01, C03: must compare equal, equal hash)                  *)
(*   mirror-respell : the same applied to Enantiomer(g)                    *)
(*   element / bond / flip / swap : one element changed, one bond removed, *)
(*             one centre inverted, two ligands of one descriptor          *)
(*             exchanged; "iso" is the verdict of the complete search      *)
(*             ExistsIso(g, h) (C02: when FALSE the code must say unequal) *)
(* Output: X|{i, v, kind, h, iso, sigeq}                                   *)
(***************************************************************************)
EXTENDS SMGFromJson, SMGIso, SMGEmit

TRecs == ndJsonDeserialize(IOEnv.OBS_FILE)
NVariants == 8

(* k-th element of a finite set in TLC's enumeration order *)
Nth(S, k) == SetToSeqG(S)[((k - 1) % Cardinality(S)) + 1]

(* descriptor rewritten through the k-th symmetry element of its class *)
RespellD(d, k) ==
   IF d.par = NoPar THEN [d EXCEPT !.atoms = ArrPerm(@, Nth(Sym(d.cls), k))]
   ELSE LET pi == Nth(Sym(d.cls), k) IN
        IF pi \in Proper(d.cls) THEN [d EXCEPT !.atoms = ArrPerm(@, pi)]
        ELSE [d EXCEPT !.atoms = ArrPerm(@, pi), !.par = -@]
Salt(x) == IF x < 0 THEN -x ELSE x
RespellG(g, k) ==
   [g EXCEPT !.ast = [a \in DOMAIN @ |-> RespellD(@[a], k + Salt(a))],
             !.bst = [b \in DOMAIN @ |-> RespellD(@[b], k + Cardinality(DOMAIN g.bst))],
             !.ach = [a \in DOMAIN @ |-> [c \in DOMAIN @[a] |-> RespellD(@[a][c], k + 1)]],
             !.bch = [b \in DOMAIN @ |-> [c \in DOMAIN @[b] |-> RespellD(@[b][c], k + 2)]]]
(* renaming: x -> 3 x + 1000 + k (injective, disjoint from the original identifiers when they are small) *)
Rename(g, k) == Relabel(g, [a \in AllIds(g) |-> 3 * a + 1000 + k])

Heavy(g) == { a \in Atoms(g) : g.el[a] # 1 }
MutEl(g, k)   == IF Heavy(g) = {} THEN g
                 ELSE LET a == Nth(Heavy(g), k) IN [g EXCEPT !.el[a] = IF @ = 7 THEN 8 ELSE 7]
MutBond(g, k) == IF Bonds(g) = {} THEN g
                 ELSE LET b == Nth(Bonds(g), k) IN
                      IF b \in DOMAIN g.bst \/ \E a \in DOMAIN g.ast : b \subseteq RealAtoms(g.ast[a]) THEN g
                      ELSE [g EXCEPT !.bd = Drop(@, {b})]
Chiral1(g) == { a \in DOMAIN g.ast : g.ast[a].par \in {1, -1} }
MutFlip(g, k) == IF Chiral1(g) = {} THEN g
                 ELSE LET a == Nth(Chiral1(g), k) IN [g EXCEPT !.ast[a] = Invert(@)]
SwapLig(d) == [d EXCEPT !.atoms = [i \in DOMAIN @ |-> IF i = Len(@) THEN @[Len(@) - 1]
                                                      ELSE IF i = Len(@) - 1 THEN @[Len(@)] ELSE @[i]]]
MutSwap(g, k) == IF DOMAIN g.bst = {} THEN MutFlip(g, k + 1)
                 ELSE LET b == Nth(DOMAIN g.bst, k) IN [g EXCEPT !.bst[b] = SwapLig(@)]

Variant(g, v) ==
   CASE v = 1 -> [kind |-> "respell", h |-> Rename(RespellG(g, 1), 1)]
     [] v = 2 -> [kind |-> "respell", h |-> Rename(RespellG(g, 5), 2)]
     [] v = 3 -> [kind |-> "respell", h |-> RespellG(g, 11)]
     [] v = 4 -> [kind |-> "mirror-respell", h |-> Rename(RespellG(Enantiomer(g), 3), 4)]
     [] v = 5 -> [kind |-> "element", h |-> MutEl(g, 2)]
     [] v = 6 -> [kind |-> "bond", h |-> MutBond(g, 3)]
     [] v = 7 -> [kind |-> "flip", h |-> MutFlip(g, 1)]
     [] v = 8 -> [kind |-> "swap", h |-> MutSwap(g, 1)]

VARIABLES ph, i, v
vars == <<ph, i, v>>
Init == ph = "start" /\ i = 0 /\ v = 0
Next == \/ ph = "start" /\ ph' = "rec" /\ i' \in 1..Len(TRecs) /\ v' = 0
        \/ ph = "rec" /\ ph' = "var" /\ i' = i /\ v' \in 1..NVariants
Spec == Init /\ [][Next]_vars

Emit ==
   ph = "var" =>
      LET g == GofJ(TRecs[i].g)  x == Variant(g, v)
          same == x.h = g
          iso == IF x.kind \in {"respell"} THEN TRUE ELSE ExistsIso(g, x.h) IN
      PrintT("X|" \o JObj(<< JKV("i", JInt(TRecs[i].id)), JKV("v", JInt(v)), JKV("kind", JStr(x.kind)),
                             JKV("unchanged", JBool(same)), JKV("iso", JBool(iso)),
                             JKV("respell_ok", JBool(x.kind # "respell" \/ ExistsIso(g, x.h))),
                             JKV("sigeq", JBool(Sig(g) = Sig(x.h))), JKV("h", GJ(x.h)) >>))
=============================================================================
