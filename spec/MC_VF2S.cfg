SPECIFICATION Spec
CONSTANTS
  Fam = "two"
  SampleMod = 1
  OrderMod = 3
INVARIANT IBookkeeping
INVARIANT IPartialIso
INVARIANT IStackShape
INVARIANT IAgreesWithIsos
CHECK_DEADLOCK FALSE
