------------------------------ MODULE Trace_Edit ------------------------------
(***************************************************************************)
(* code -> spec: every record of an ndjson file is one public call made on *)
(* a real object, logged at its return with the full projected state       *)
(* before and after:                                                       *)
(*   {"id", "pre": G, "h": G, "op": OP, "out": "ok"|"raise"|"ans",         *)
(*    "ans": ANS, "post": G, "res": G}                                     *)
(* A record is accepted iff SOME outcome allowed by SMGEdit!Outcomes for   *)
(* (pre, h, op) has the recorded outcome class, the recorded post state    *)
(* (descriptors up to symmetry), the recorded result graph and answer.     *)
(* Records are independent, so validation is linear in the trace length    *)
(* and one rejected step does not hide the rest.  Work is fanned out over  *)
(* SHARDS pseudo-states so that TLC's workers share the file.              *)
(***************************************************************************)
EXTENDS SMGFromJson

Recs == ndJsonDeserialize(IOEnv.OBS_FILE)
NShards == 64

AnsEq(spec, obs) ==
   \/ spec.t = "any"
   \/ /\ spec.t = obs.t
      /\ CASE spec.t = "none"  -> TRUE
           [] spec.t = "bool"  -> spec.b = obs.b
           [] spec.t = "int"   -> spec.i = obs.i
           [] spec.t = "ids"   -> spec.s = obs.s
           [] spec.t = "descr" -> DEqStrict(spec.d, obs.d)
           [] spec.t = "chg"   -> SameDescrMap(spec.c, obs.c)
           [] OTHER -> FALSE

ResEq(spec, obs) == IF spec.kind = "none" THEN obs.kind = "none"
                    ELSE obs.kind # "none" /\ GraphEq(spec, obs)

(* ------------------------------ verdict ----------------------------------- *)
Verdict(r) ==
   LET g == GofJ(r.pre)  h == GofJ(r.h)  op == OpOfJ(r.op)
       post == GofJ(r.post)  res == GofJ(r.res)  ans == AnsOfJ(r.ans)
       alts == Outcomes(g, h, op)
       c0 == alts # {}
       c1 == \E o \in alts : o.out = r.out
       c2 == \E o \in alts : o.out = r.out /\ GraphEq(o.g, post)
       c3 == \E o \in alts : o.out = r.out /\ GraphEq(o.g, post) /\ ResEq(o.res, res)
       c4 == \E o \in alts : o.out = r.out /\ GraphEq(o.g, post) /\ ResEq(o.res, res) /\ AnsEq(o.ans, ans)
       c5 == Coherent(post)
   IN [id |-> r.id, driven |-> c0, outcome |-> c1, post |-> c2, result |-> c3, answer |-> c4, coherent |-> c5,
       allowed |-> { o.out : o \in alts }]

Good(v) == v.driven /\ v.outcome /\ v.post /\ v.result /\ v.answer /\ v.coherent

VARIABLES shard, idx
vars == <<shard, idx>>
Init == shard = 0 /\ idx = 0
Next == \/ shard = 0 /\ shard' \in 1..NShards /\ idx' = 0
        \/ shard > 0 /\ idx = 0 /\ idx' \in { i \in 1..Len(Recs) : (i % NShards) + 1 = shard } /\ UNCHANGED shard
Spec == Init /\ [][Next]_vars

Report ==
   IF idx = 0 THEN TRUE
   ELSE LET v == Verdict(Recs[idx]) IN
        IF Good(v) THEN PrintT("OK|" \o JInt(v.id))
        ELSE PrintT("BAD|" \o JObj(<< JKV("id", JInt(v.id)), JKV("driven", JBool(v.driven)),
                                      JKV("outcome", JBool(v.outcome)), JKV("post", JBool(v.post)),
                                      JKV("result", JBool(v.result)), JKV("answer", JBool(v.answer)),
                                      JKV("coherent", JBool(v.coherent)),
                                      JKV("allowed", JSetArr({ JStr(x) : x \in v.allowed })) >>))
=============================================================================
