-------------------------------- MODULE MC_Xyz --------------------------------
(***************************************************************************)
(* C20, text half: the XYZ document model.  A document is                  *)
(*    line 1: number of atoms n                                            *)
(*    line 2: comment (any text without line break; chosen by index)       *)
(*    n lines: element symbol and three fixed-point numbers, 8 decimals    *)
(* A coordinate is a triple <<sign, integer part, 9-digit fraction>> so    *)
(* that everything fits TLC's 32-bit integers (value = sign*(int+frac/1e9)).*)
(* The boundary values cover zero, negative zero, the last printed digit,  *)
(* rounding ties at the 9th digit, carries, and magnitudes up to 1e6.      *)
(* One line per case: X|{n, els, coords:[[s,i,f]..], comment}              *)
(***************************************************************************)
EXTENDS Integers, Sequences, FiniteSets, TLC, SMGJson

CONSTANTS SampleMod, NComments

Boundary == <<
   <<1, 0, 0>>, <<-1, 0, 0>>, <<1, 0, 10>>, <<-1, 0, 10>>, <<1, 0, 5>>, <<-1, 0, 5>>, <<1, 0, 15>>, <<-1, 0, 15>>,
   <<1, 1, 234567890>>, <<-1, 1, 234567890>>, <<1, 0, 123456785>>, <<-1, 0, 123456785>>,
   <<1, 999999, 999999990>>, <<-1, 999999, 999999990>>, <<1, 1000000, 0>>, <<-1, 1000000, 0>>,
   <<1, 123456, 4>>, <<-1, 0, 999999995>>, <<1, 0, 999999995>>, <<1, 12, 500000000>>, <<-1, 7, 1>> >>
NB == Len(Boundary)

VARIABLES n, e0, c, cm
vars == <<n, e0, c, cm>>
(* elements: e0, e0+1, ... (mod 118) so that all 118 symbols occur; coordinates: a walk through the
   boundary list starting at c with stride depending on the position *)
Init == /\ n \in 1..4 /\ e0 \in 1..118 /\ c \in 1..NB /\ cm \in 0..NComments
        /\ (SampleMod <= 1 \/ (n * 7 + e0 * 13 + c * 31 + cm * 3) % SampleMod = 0)
Next == UNCHANGED vars
Spec == Init /\ [][Next]_vars

El(k) == ((e0 + k - 2) % 118) + 1
Coord(k, ax) == Boundary[((c + 3 * (k - 1) + 7 * (ax - 1) - 1) % NB) + 1]
Emit == PrintT("X|" \o JObj(<<
   JKV("n", JInt(n)),
   JKV("els", JIntSeq([k \in 1..n |-> El(k)])),
   JKV("coords", JArr([k \in 1..n |-> JArr([ax \in 1..3 |-> JIntSeq(Coord(k, ax))])])),
   JKV("comment", JInt(cm)) >>))
=============================================================================
