-------------------------- MODULE Obs_StereoTables --------------------------
(* Code -> spec: the implementation's public permutation tables, dumped to *)
(* JSON by the harness, are compared with the groups derived from the      *)
(* figures.  Rows are 0-based in the dump.                                 *)
EXTENDS SMGStereo, SMGJson, Json, IOUtils

Tab == JsonDeserialize(IOEnv.OBS_FILE)   \* [cls |-> [group |-> <<rows>>, inversion |-> row or <<>>]]

VARIABLE cls
Init == cls \in Classes
Next == UNCHANGED cls
Spec == Init /\ [][Next]_cls

Shift(r) == [i \in DOMAIN r |-> r[i] + 1]
Unshift(p) == [i \in DOMAIN p |-> p[i] - 1]
Rows(c) == { Shift(Tab[c].group[i]) : i \in DOMAIN Tab[c].group }
IsPermRow(r, n) == Len(r) = n /\ { r[i] : i \in DOMAIN r } = 1..n

TableOK(c) == /\ \A i \in DOMAIN Tab[c].group : IsPermRow(Shift(Tab[c].group[i]), Arity(c))
              /\ Rows(c) = Proper(c)
InvOK(c) == IF Chiral(c)
              THEN /\ Len(Tab[c].inversion) = Arity(c)
                   /\ Shift(Tab[c].inversion) \in Improper(c) \ Proper(c)
              ELSE Len(Tab[c].inversion) = 0

Line(c) == "T04|" \o JObj(<<
    JKV("cls", JStr(c)),
    JKV("table_ok", JBool(TableOK(c))),
    JKV("inv_ok", JBool(InvOK(c))),
    JKV("n_rows", JInt(Len(Tab[c].group))),
    JKV("order", JInt(Cardinality(Proper(c)))),
    JKV("missing", JSetArr({ JIntSeq(Unshift(p)) : p \in Proper(c) \ Rows(c) })),
    JKV("extra", JSetArr({ JIntSeq(Unshift(p)) : p \in Rows(c) \ Proper(c) })) >>)

Emit == PrintT(Line(cls))
=============================================================================
