------------------------------ MODULE GenGroups ------------------------------
(* prints the symmetry groups derived from the figures, one line per group *)
EXTENDS SMGFigures
ASSUME \A c \in Classes :
   /\ PrintT(<<"GRP", c, "Sym", DerivedSym(c)>>)
   /\ PrintT(<<"GRP", c, "Proper", DerivedProper(c)>>)
   /\ PrintT(<<"GRP", c, "Improper", DerivedImproper(c)>>)
VARIABLE x
Init == x = 0
Next == x' = x
=============================================================================
