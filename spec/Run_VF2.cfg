SPECIFICATION TSpec
CONSTANT RunMode = TRUE
CONSTRAINT TReport
CHECK_DEADLOCK FALSE
