------------------------------- MODULE MC_VF2S -------------------------------
(***************************************************************************)
(* The VF2++ loop model (VF2.tla, with its role / stereo / stereo-change   *)
(* feasibility rules) run on ordered pairs of members of the case families *)
(* of SMGFamilies, and its result compared with SMGIso!Isos - the          *)
(* independent brute-force definition ("all bijections that are witnesses  *)
(* of structural identity") against which the real enumerator's yields are *)
(* compared by MC_IsoPairs.  So:                                           *)
(*     real loop  --Trace_VF2-->  VF2 model  --MC_VF2S-->  Isos            *)
(*     real yields  ------------MC_IsoPairs------------->  Isos            *)
(* Only fully specified members are taken (with an unspecified parity the  *)
(* notion of "preserved" is deliberately loose in SMGIso).                 *)
(***************************************************************************)
EXTENDS VF2, SMGFamilies, SMGIso

CONSTANTS SampleMod,      \* pairs (i, j) with (7919 i + 104729 j) % SampleMod = 0
          OrderMod        \* matching orders: breadth-first from every OrderMod-th atom

Ran(f) == { f[k] : k \in DOMAIN f }
AllD(g) == Ran(g.ast) \cup Ran(g.bst)
AllC(g) == UNION { { <<c, g.ach[k][c]>> : c \in DOMAIN g.ach[k] } : k \in DOMAIN g.ach } \cup
           UNION { { <<c, g.bch[k][c]>> : c \in DOMAIN g.bch[k] } : k \in DOMAIN g.bch }
Specified(g) == /\ \A d \in AllD(g) : d.par # NoPar
                /\ \A x \in AllC(g) : x[2].par # NoPar
RolesOf(g) == [b \in { x \in Bonds(g) : g.bd[x].role # "none" } |-> g.bd[b].role]
InstOfGraphs(g, h, o) ==
   [n1 |-> Atoms(g), n2 |-> Atoms(h),
    adj1 |-> [a \in Atoms(g) |-> Nbrs(g, a)], adj2 |-> [a \in Atoms(h) |-> Nbrs(h, a)],
    lab1 |-> g.el, lab2 |-> h.el, order |-> o,
    stereo |-> HasStereo(g.kind), changes |-> HasChanges(g.kind),
    st1 |-> AllD(g), st2 |-> AllD(h), sc1 |-> AllC(g), sc2 |-> AllC(h), rl1 |-> RolesOf(g), rl2 |-> RolesOf(h)]

Members == { i \in 1..NFam : Specified(FamSeq[i]) /\ Atoms(FamSeq[i]) # {} }
(* matching orders: the breadth-first order from every OrderMod-th start atom (every order is admissible; MC_VF2
   shows on all small graphs that the result does not depend on the order at all) *)
OrdersOf(g) ==
   LET sq == SetToSeqG(Atoms(g)) IN
   { BfsFrom(g, <<sq[k]>>, Atoms(g) \ {sq[k]}) : k \in { x \in 1..Len(sq) : x % OrderMod = 1 % OrderMod } }

NoInst == [n1 |-> {}, n2 |-> {}, adj1 |-> <<>>, adj2 |-> <<>>, lab1 |-> <<>>, lab2 |-> <<>>, order |-> <<>>, row |-> 0] @@ Plain
Init == /\ P = NoInst /\ mapping = <<>> /\ fr1 = {} /\ ex1 = {} /\ fr2 = {} /\ ex2 = {}
        /\ stack = <<>> /\ done = FALSE /\ found = <<>>
PickRow == /\ "row" \in DOMAIN P /\ P.row = 0 /\ \E i \in Members : P' = [NoInst EXCEPT !.row = i]
           /\ UNCHANGED <<mapping, fr1, ex1, fr2, ex2, stack, done, found>>
PickInstance ==
   /\ "row" \in DOMAIN P /\ P.row > 0
   /\ LET i == P.row  g == FamSeq[i] IN
      \E j \in { x \in Members : (i * 7919 + x * 104729) % SampleMod = 0 \/ x = i } :
         \E o \in OrdersOf(g) : ChooseInstance(InstOfGraphs(g, FamSeq[j], o) @@ [gi |-> i, gj |-> j])
Running == "row" \notin DOMAIN P
NextDet == Pop \/ (stack # <<>> /\ Top[2] # {} /\ Try(CHOOSE v \in Top[2] : \A w \in Top[2] : v <= w))
NextMC == PickRow \/ PickInstance \/ (Running /\ NextDet)
Spec == Init /\ [][NextMC]_vars

IBookkeeping == Running => Bookkeeping
IPartialIso == Running => PartialIso
IStackShape == Running => StackShape
(* the algorithm's result is the set of witnesses of SMGIso, each found once *)
IAgreesWithIsos ==
   (Running /\ done) =>
      LET g == FamSeq[P.gi]  h == FamSeq[P.gj] IN
      /\ DOMAIN found = Isos(g, h)
      /\ \A m \in DOMAIN found : found[m] = 1
=============================================================================
