SPECIFICATION TSpec
CONSTANT RunMode = FALSE
CONSTRAINT TReport
CHECK_DEADLOCK FALSE
