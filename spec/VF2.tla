--------------------------------- MODULE VF2 ---------------------------------
(***************************************************************************)
(* The explicit-stack VF2++ loop of algorithms/isomorphism.py              *)
(* (vf2pp_all_isomorphisms, full-graph mode, no stereo) as a state         *)
(* machine, structured like the code: one action per branch of the while   *)
(* loop.                                                                   *)
(*                                                                         *)
(*   stack    : sequence of <<node of g1, remaining candidates in g2>>      *)
(*   mapping  : partial function g1 -> g2 built so far                     *)
(*   fr1, ex1 : frontier / external sets of g1 (fr = unmapped neighbours   *)
(*              of mapped atoms, ex = the other unmapped atoms)            *)
(*   fr2, ex2 : the same for g2                                            *)
(*   found    : the mappings yielded so far (a bag: mapping -> count)      *)
(*                                                                         *)
(* Beyond the graph rules the loop has three optional feasibility rules,   *)
(* all modelled here (instance fields stereo / changes switch them on):    *)
(*   roles   : a bond to an already mapped neighbour keeps its reaction     *)
(*             role (reaction graphs)                                       *)
(*   stereo  : the descriptors completed by the new pair are carried onto   *)
(*             equal descriptors (SMGStereo!DEq), and equally many          *)
(*   changes : the same for (formed/broken/fleeting, descriptor) pairs      *)
(*                                                                         *)
(* The matching order is a PARAMETER: any order in which every atom either *)
(* is adjacent to an earlier atom or starts a new connected component      *)
(* after the previous ones are exhausted (what _matching_order produces).  *)
(* Checked by TLC (MC_VF2) over all pairs of small labelled graphs and all *)
(* such orders: the bookkeeping invariant, partial-isomorphism invariant,  *)
(* and at termination  found = exactly the label/adjacency-preserving      *)
(* bijections, each once.                                                  *)
(***************************************************************************)
EXTENDS SMGStereo

VARIABLES P,             \* the problem instance (never changes): [n1, n2, adj1, adj2, lab1, lab2, order,
                         \*    stereo, changes, st1, st2, sc1, sc2, rl1, rl2]
          stack, mapping, fr1, ex1, fr2, ex2, found, done
vars == <<P, stack, mapping, fr1, ex1, fr2, ex2, found, done>>

N1 == P.n1           \* atom sets of g1, g2
N2 == P.n2
Adj1 == P.adj1       \* [atom -> set of neighbours]
Adj2 == P.adj2
Lab1 == P.lab1       \* [atom -> label]
Lab2 == P.lab2
Order == P.order     \* matching order: sequence of the atoms of g1

St1 == P.st1         \* descriptors of g1 / g2 (sets of [cls, atoms, par])
St2 == P.st2
Sc1 == P.sc1         \* stereo changes of g1 / g2 (sets of <<change, descriptor>>)
Sc2 == P.sc2
Role1(b) == IF b \in DOMAIN P.rl1 THEN P.rl1[b] ELSE "none"      \* reaction role of a bond (a two-element set)
Role2(b) == IF b \in DOMAIN P.rl2 THEN P.rl2[b] ELSE "none"
(* the fields of a plain (molecule graph, no stereo) instance *)
Plain == [stereo |-> FALSE, changes |-> FALSE, st1 |-> {}, st2 |-> {}, sc1 |-> {}, sc2 |-> {}, rl1 |-> <<>>, rl2 |-> <<>>]

Dom(f) == DOMAIN f
Img(f) == { f[x] : x \in DOMAIN f }
InvMap(f) == [y \in Img(f) |-> CHOOSE x \in DOMAIN f : f[x] = y]

(* _find_candidates *)
Candidates(u, m, e2) ==
   LET covered == { n \in Adj1[u] : n \in Dom(m) }
       sameLabDeg == { v \in N2 : Lab2[v] = Lab1[u] /\ Cardinality(Adj2[v]) = Cardinality(Adj1[u]) } IN
   IF covered = {} THEN (sameLabDeg \cap e2) \ Img(m)
   ELSE { v \in sameLabDeg \ Img(m) : \A n \in covered : v \in Adj2[m[n]] }

(* label multisets as bags *)
BagLab1(S) == [l \in { Lab1[x] : x \in S } |-> Cardinality({ x \in S : Lab1[x] = l })]
BagLab2(S) == [l \in { Lab2[x] : x \in S } |-> Cardinality({ x \in S : Lab2[x] = l })]
(* _graph_feasibility, evaluated with u -> v already in the mapping but the frontier sets not yet updated *)
Feasible(u, v, f1, e1, f2, e2) ==
   /\ BagLab1({ n \in Adj1[u] : n \in f1 /\ n \notin e1 }) = BagLab2({ n \in Adj2[v] : n \in f2 /\ n \notin e2 })
   /\ BagLab1({ n \in Adj1[u] : n \in e1 }) = BagLab2({ n \in Adj2[v] : n \in e2 })

(* the optional rules, evaluated like _graph_feasibility with u -> v already in the mapping m *)
RealOf(d) == SeqRange(d.atoms) \ {NoAtom}
MapDesc(d, m) == [d EXCEPT !.atoms = [i \in DOMAIN @ |-> IF @[i] = NoAtom THEN NoAtom ELSE m[@[i]]]]
RoleF(u, v, m) ==          \* _bond_change_feasibility
   \A n \in Adj1[u] : n \in Dom(m) => Role1({u, n}) = Role2({v, m[n]})
StereoF(u, v, m) ==        \* _stereo_feasibility
   LET A == { d \in St1 : u \in RealOf(d) /\ RealOf(d) \subseteq Dom(m) }
       B == { d \in St2 : v \in RealOf(d) /\ RealOf(d) \subseteq Img(m) } IN
   /\ Cardinality(A) = Cardinality(B)
   /\ \A d \in A : \E e \in B : DEq(MapDesc(d, m), e)
ChangeF(u, v, m) ==        \* _stereo_change_feasibility (a set comparison; parities specified)
   LET A == { x \in Sc1 : u \in RealOf(x[2]) /\ RealOf(x[2]) \subseteq Dom(m) }
       B == { x \in Sc2 : v \in RealOf(x[2]) /\ RealOf(x[2]) \subseteq Img(m) } IN
   /\ \A x \in A : \E y \in B : x[1] = y[1] /\ DEq(MapDesc(x[2], m), y[2])
   /\ \A y \in B : \E x \in A : x[1] = y[1] /\ DEq(MapDesc(x[2], m), y[2])
FeasibleX(u, v, m) == /\ RoleF(u, v, m)
                      /\ P.stereo => StereoF(u, v, m)
                      /\ P.changes => ChangeF(u, v, m)

(* _sanity_check_and_init: sizes, degree sequences and label counts must agree, else nothing is yielded *)
DegBag1 == [d \in { Cardinality(Adj1[a]) : a \in N1 } |-> Cardinality({ a \in N1 : Cardinality(Adj1[a]) = d })]
DegBag2 == [d \in { Cardinality(Adj2[a]) : a \in N2 } |-> Cardinality({ a \in N2 : Cardinality(Adj2[a]) = d })]
PreOK == Cardinality(N1) = Cardinality(N2) /\ DegBag1 = DegBag2 /\ BagLab1(N1) = BagLab2(N2)

(* the start state for instance p, as a record (used both for Init and for a "choose instance" step) *)
CandidatesP(p, u) ==        \* _find_candidates for the first node: nothing is covered yet
   { v \in p.n2 : p.lab2[v] = p.lab1[u] /\ Cardinality(p.adj2[v]) = Cardinality(p.adj1[u]) }
BagOf(S, lab) == [l \in { lab[x] : x \in S } |-> Cardinality({ x \in S : lab[x] = l })]
DegBagOf(S, adj) == [d \in { Cardinality(adj[a]) : a \in S } |-> Cardinality({ a \in S : Cardinality(adj[a]) = d })]
PreOKP(p) == /\ Cardinality(p.n1) = Cardinality(p.n2) /\ DegBagOf(p.n1, p.adj1) = DegBagOf(p.n2, p.adj2)
             /\ BagOf(p.n1, p.lab1) = BagOf(p.n2, p.lab2)
Start(p) ==
   LET base == [P |-> p, mapping |-> <<>>, fr1 |-> {}, ex1 |-> p.n1, fr2 |-> {}, ex2 |-> p.n2] IN
   IF ~PreOKP(p) THEN base @@ [stack |-> <<>>, done |-> TRUE, found |-> <<>>]
   ELSE IF p.order = <<>> THEN base @@ [stack |-> <<>>, done |-> TRUE, found |-> (<<>> :> 1)]   \* two empty graphs
   ELSE base @@ [stack |-> << <<p.order[1], CandidatesP(p, p.order[1])>> >>, done |-> FALSE, found |-> <<>>]
InitFor(p) ==
   LET s == Start(p) IN
   /\ P = s.P /\ mapping = s.mapping /\ fr1 = s.fr1 /\ ex1 = s.ex1 /\ fr2 = s.fr2 /\ ex2 = s.ex2
   /\ stack = s.stack /\ done = s.done /\ found = s.found
ChooseInstance(p) ==        \* the same as a step (lets TLC's workers share the instances)
   LET s == Start(p) IN
   /\ P' = s.P /\ mapping' = s.mapping /\ fr1' = s.fr1 /\ ex1' = s.ex1 /\ fr2' = s.fr2 /\ ex2' = s.ex2
   /\ stack' = s.stack /\ done' = s.done /\ found' = s.found

(* the matching orders the loop may be given (what _matching_order produces: BFS layers, component by component) *)
RECURSIVE Reach(_, _, _)
Reach(adj, S, seen) == LET T == seen \cup UNION { adj[a] : a \in seen } IN IF T = seen THEN seen ELSE Reach(adj, S, T)
(* admissible orders: a permutation in which an atom without earlier neighbour appears only when all earlier atoms'
   components are complete (BFS component by component) *)
Admissible(S, adj, o) ==
   \A k \in 1..Len(o) :
      \/ \E j \in 1..(k - 1) : o[j] \in adj[o[k]]
      \/ \A j \in 1..(k - 1) : Reach(adj, S, {o[j]}) \subseteq { o[i] : i \in 1..(k - 1) }
OrderPerm == Len(Order) = Cardinality(N1) /\ { Order[i] : i \in DOMAIN Order } = N1
OrderOK == OrderPerm /\ Admissible(N1, Adj1, Order)
(* MC_VF2 (AnyOrder = TRUE) shows that exactness needs OrderPerm only: an atom without mapped neighbour is exactly an
   atom of ex1, and its candidates are taken from ex2.  Admissibility matters for speed, not for the result. *)

Top == stack[Len(stack)]
Depth == Len(stack)                 \* matching_atom_index

(* candidates exhausted: pop, undo the previous pair, _revert_state *)
Revert1(u, m) ==     \* frontier / external of g1 after removing u from the mapping m (m already without u)
   LET hasCov == \E n \in Adj1[u] : n \in Dom(m)
       drop == { n \in Adj1[u] : n \notin Dom(m) /\ ~(\E k \in Adj1[n] : k \in Dom(m)) }
   IN <<IF hasCov THEN (fr1 \ drop) \cup {u} ELSE fr1 \ drop,
        IF hasCov THEN ex1 \cup drop ELSE (ex1 \cup drop) \cup {u}>>
Revert2(v, m) ==
   LET im == Img(m)
       hasCov == \E n \in Adj2[v] : n \in im
       drop == { n \in Adj2[v] : n \notin im /\ ~(\E k \in Adj2[n] : k \in im) }
   IN <<IF hasCov THEN (fr2 \ drop) \cup {v} ELSE fr2 \ drop,
        IF hasCov THEN ex2 \cup drop ELSE (ex2 \cup drop) \cup {v}>>

Pop ==
   /\ stack # <<>> /\ Top[2] = {}
   /\ IF Len(stack) = 1
        THEN /\ stack' = <<>> /\ done' = TRUE /\ UNCHANGED <<P, mapping, fr1, ex1, fr2, ex2, found>>
        ELSE LET prev == stack[Len(stack) - 1]
                 u == prev[1]
                 v == mapping[u]
                 m2 == [x \in Dom(mapping) \ {u} |-> mapping[x]]
                 r1 == Revert1(u, m2)
                 r2 == Revert2(v, m2) IN
             /\ stack' = SubSeq(stack, 1, Len(stack) - 1)
             /\ mapping' = m2
             /\ fr1' = r1[1] /\ ex1' = r1[2] /\ fr2' = r2[1] /\ ex2' = r2[2]
             /\ UNCHANGED <<P, found, done>>

Bump(bag, m) == IF m \in DOMAIN bag THEN [bag EXCEPT ![m] = @ + 1] ELSE bag @@ (m :> 1)

(* a candidate is taken from the top of the stack *)
Try(v) ==
   /\ stack # <<>> /\ v \in Top[2]
   /\ LET u == Top[1]
          rest == <<u, Top[2] \ {v}>>
          m2 == mapping @@ (u :> v) IN
      IF Feasible(u, v, fr1, ex1, fr2, ex2) /\ FeasibleX(u, v, m2)
        THEN IF Cardinality(Dom(m2)) = Cardinality(N1)
               THEN \* yield, then undo the pair
                    /\ found' = Bump(found, m2)
                    /\ stack' = [stack EXCEPT ![Len(stack)] = rest]
                    /\ UNCHANGED <<P, mapping, fr1, ex1, fr2, ex2, done>>
               ELSE \* _update_state and push the next node with its candidates
                    LET un1 == { n \in Adj1[u] : n \notin Dom(m2) }
                        un2 == { n \in Adj2[v] : n \notin Img(m2) }
                        nf1 == (fr1 \cup un1) \ {u}   ne1 == (ex1 \ un1) \ {u}
                        nf2 == (fr2 \cup un2) \ {v}   ne2 == (ex2 \ un2) \ {v}
                        nxt == Order[Len(stack) + 1] IN
                    /\ mapping' = m2
                    /\ fr1' = nf1 /\ ex1' = ne1 /\ fr2' = nf2 /\ ex2' = ne2
                    /\ stack' = Append([stack EXCEPT ![Len(stack)] = rest], <<nxt, Candidates(nxt, m2, ne2)>>)
                    /\ UNCHANGED <<P, found, done>>
        ELSE /\ stack' = [stack EXCEPT ![Len(stack)] = rest]
             /\ UNCHANGED <<P, mapping, fr1, ex1, fr2, ex2, found, done>>

Next == Pop \/ \E v \in N2 : Try(v)

(* ------------------------------ properties ------------------------------- *)
Unmapped1 == N1 \ Dom(mapping)
Unmapped2 == N2 \ Img(mapping)
Bookkeeping ==      \* what update/revert must maintain
   /\ fr1 = { a \in Unmapped1 : \E n \in Adj1[a] : n \in Dom(mapping) }
   /\ ex1 = Unmapped1 \ fr1
   /\ fr2 = { a \in Unmapped2 : \E n \in Adj2[a] : n \in Img(mapping) }
   /\ ex2 = Unmapped2 \ fr2
PartialIso ==
   /\ \A x, y \in Dom(mapping) : x # y => mapping[x] # mapping[y]
   /\ \A x \in Dom(mapping) : Lab1[x] = Lab2[mapping[x]]
   /\ \A x, y \in Dom(mapping) : (y \in Adj1[x]) = (mapping[y] \in Adj2[mapping[x]])
   /\ \A x \in Dom(mapping) : \A y \in Adj1[x] \cap Dom(mapping) : Role1({x, y}) = Role2({mapping[x], mapping[y]})
   /\ P.stereo => \A d \in St1 : RealOf(d) \subseteq Dom(mapping) => \E e \in St2 : DEq(MapDesc(d, mapping), e)
StackShape ==
   /\ Dom(mapping) = { stack[k][1] : k \in 1..(Len(stack) - 1) }
   /\ \A k \in 1..Len(stack) : stack[k][1] = Order[k]

(* what a full mapping has to preserve besides labels and adjacency *)
Preserved(f) ==
   /\ \A x \in N1 : \A y \in Adj1[x] : Role1({x, y}) = Role2({f[x], f[y]})
   /\ P.stereo => /\ Cardinality(St1) = Cardinality(St2)
                  /\ \A d \in St1 : \E e \in St2 : DEq(MapDesc(d, f), e)
   /\ P.changes => /\ \A x \in Sc1 : \E y \in Sc2 : x[1] = y[1] /\ DEq(MapDesc(x[2], f), y[2])
                   /\ \A y \in Sc2 : \E x \in Sc1 : x[1] = y[1] /\ DEq(MapDesc(x[2], f), y[2])
Bijections == { f \in [N1 -> N2] :
                  /\ \A x, y \in N1 : x # y => f[x] # f[y]
                  /\ \A x \in N1 : Lab1[x] = Lab2[f[x]]
                  /\ \A x, y \in N1 : (y \in Adj1[x]) = (f[y] \in Adj2[f[x]])
                  /\ Preserved(f) }
AllIsos == IF Cardinality(N1) # Cardinality(N2) THEN {} ELSE Bijections
Exact == done => /\ DOMAIN found = AllIsos
                 /\ \A m \in DOMAIN found : found[m] = 1
=============================================================================
