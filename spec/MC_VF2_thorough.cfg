SPECIFICATION Spec
CONSTANTS
  NMax = 4
  FullChoice = FALSE
  AnyOrder = TRUE
  Prefilter = TRUE
INVARIANT IBookkeeping
INVARIANT IPartialIso
INVARIANT IStackShape
INVARIANT IExact
CHECK_DEADLOCK FALSE
