------------------------------ MODULE Trace_VF2 ------------------------------
(***************************************************************************)
(* Trace validation of the real VF2++ loop against spec/VF2.tla.           *)
(* One ndjson line = one run of vf2pp_all_isomorphisms recorded by the     *)
(* env-guarded tracer:                                                     *)
(*   {tid, inst: {n1,n2,adj1,adj2,lab1,lab2,order}, events: [..]}          *)
(*   event: {ev: "init"|"pop"|"try", v, state: {mapping, fr1, ex1, fr2,    *)
(*           ex2, stack}}  logged AFTER the step.                          *)
(* Every event must be a step of the specification's action with the       *)
(* logged argument, and the logged state must be the specification's       *)
(* successor state (all variables are logged, so the search is linear).    *)
(* The invariants of VF2 (bookkeeping, partial isomorphism, exactness at   *)
(* the end) are checked on every state of every validated trace.           *)
(***************************************************************************)
EXTENDS VF2, Json, IOUtils, SMGJson
CONSTANT RunMode      \* FALSE: replay the logged events;  TRUE: ignore them and run the specification itself

Traces == ndJsonDeserialize(IOEnv.OBS_FILE)
NShards == 64

VARIABLES tid, l        \* trace index (0: none chosen yet), next event
tvars == <<vars, tid, l>>

SetOf(s) == { s[i] : i \in DOMAIN s }
PairsFun(s) == [x \in { s[i][1] : i \in DOMAIN s } |-> s[CHOOSE i \in DOMAIN s : s[i][1] = x][2]]
AdjFun(s) == [x \in { s[i][1] : i \in DOMAIN s } |-> SetOf(s[CHOOSE i \in DOMAIN s : s[i][1] = x][2])]
DescOf(x) == [cls |-> x[1], atoms |-> x[2], par |-> x[3]]          \* JSON [cls, [atoms], par]; NoAtom / NoPar as in SMGFigures
RoleFun(s) == LET B(i) == {s[i][1][1], s[i][1][2]} IN
              [b \in { B(i) : i \in DOMAIN s } |-> s[CHOOSE i \in DOMAIN s : B(i) = b][2]]
InstOf(j) == [n1 |-> SetOf(j.n1), n2 |-> SetOf(j.n2), adj1 |-> AdjFun(j.adj1), adj2 |-> AdjFun(j.adj2),
              lab1 |-> PairsFun(j.lab1), lab2 |-> PairsFun(j.lab2), order |-> j.order,
              stereo |-> j.stereo, changes |-> j.changes,
              st1 |-> { DescOf(j.st1[i]) : i \in DOMAIN j.st1 }, st2 |-> { DescOf(j.st2[i]) : i \in DOMAIN j.st2 },
              sc1 |-> { <<j.sc1[i][1], DescOf(j.sc1[i][2])>> : i \in DOMAIN j.sc1 },
              sc2 |-> { <<j.sc2[i][1], DescOf(j.sc2[i][2])>> : i \in DOMAIN j.sc2 },
              rl1 |-> RoleFun(j.rl1), rl2 |-> RoleFun(j.rl2)]
StackOf(s) == [k \in DOMAIN s |-> <<s[k][1], SetOf(s[k][2])>>]
Logged(e) == /\ mapping' = PairsFun(e.state.mapping)
             /\ fr1' = SetOf(e.state.fr1) /\ ex1' = SetOf(e.state.ex1)
             /\ fr2' = SetOf(e.state.fr2) /\ ex2' = SetOf(e.state.ex2)
             /\ stack' = StackOf(e.state.stack)

NoInst == [n1 |-> {}, n2 |-> {}, adj1 |-> <<>>, adj2 |-> <<>>, lab1 |-> <<>>, lab2 |-> <<>>, order |-> <<>>] @@ Plain
TInit == /\ P = NoInst /\ mapping = <<>> /\ fr1 = {} /\ ex1 = {} /\ fr2 = {} /\ ex2 = {}
         /\ stack = <<>> /\ done = FALSE /\ found = <<>> /\ tid = 0 /\ l = 0
(* fan out: shard pseudo states (tid = -k), then one start state per trace *)
TShard == tid = 0 /\ \E k \in 1..NShards : tid' = -k /\ UNCHANGED <<vars, l>>
TStart == /\ tid < 0
          /\ \E t \in { i \in 1..Len(Traces) : (i % NShards) + 1 = -tid } :
                /\ tid' = t /\ l' = 2
                /\ ChooseInstance(InstOf(Traces[t].inst))
                \* the first event is "init": the logged start state must be the specification's
                /\ RunMode \/ (Traces[t].events[1].ev = "init" /\ Logged(Traces[t].events[1]))
Ev == Traces[tid].events[l]
TPop == /\ tid > 0 /\ l <= Len(Traces[tid].events) /\ Ev.ev = "pop"
        /\ Pop /\ Logged(Ev) /\ l' = l + 1 /\ UNCHANGED tid
TTry == /\ tid > 0 /\ l <= Len(Traces[tid].events) /\ Ev.ev = "try"
        /\ Try(Ev.v) /\ Logged(Ev) /\ l' = l + 1 /\ UNCHANGED tid
(* run mode: the specification's own loop, candidates taken smallest first (MC_VF2 shows the result does not
   depend on the order in which candidates are taken) *)
TRun == /\ tid > 0 /\ UNCHANGED <<tid, l>>
        /\ \/ Pop
           \/ stack # <<>> /\ Top[2] # {} /\ Try(CHOOSE v \in Top[2] : \A w \in Top[2] : v <= w)
TNext == TShard \/ TStart \/ (IF RunMode THEN TRun ELSE TPop \/ TTry)
TSpec == TInit /\ [][TNext]_tvars

(* Report, one line per reached state of a trace (replay mode): the harness takes, per trace, the furthest event
   reached and the conjunction of the invariant verdicts; at the end of a run (run mode, or a replay that reached the
   end) the yielded mappings are printed. *)
SmallEnough == Cardinality(N1) <= 6          \* Exact enumerates all functions N1 -> N2
MapJ(m) == JSetArr({ JIntSeq(<<x, m[x]>>) : x \in DOMAIN m })
FoundJ == JSetArr({ JArr(<<MapJ(m), JInt(found[m])>>) : m \in DOMAIN found })
TReport ==
   (tid > 0) =>
      IF RunMode
        THEN done => PrintT("FOUND|" \o JObj(<< JKV("tid", JInt(Traces[tid].tid)), JKV("found", FoundJ),
                                               JKV("exact", JStr(IF ~SmallEnough THEN "skipped" ELSE IF Exact THEN "yes" ELSE "no")) >>))
        ELSE PrintT("AT|" \o JObj(<< JKV("tid", JInt(Traces[tid].tid)), JKV("l", JInt(l - 1)),
                                     JKV("len", JInt(Len(Traces[tid].events))), JKV("done", JBool(done)),
                                     JKV("book", JBool(Bookkeeping)), JKV("piso", JBool(PartialIso)), JKV("shape", JBool(StackShape)),
                                     JKV("order", JBool(l > 2 \/ OrderPerm)), JKV("bfs", JBool(l > 2 \/ OrderOK)),
                                     JKV("exact", JStr(IF ~done \/ ~SmallEnough THEN "skipped" ELSE IF Exact THEN "yes" ELSE "no")) >>))
=============================================================================
