----------------------------- MODULE SMGFromJson -----------------------------
(* JSON (as read by the community Json module) -> spec values.  The JSON    *)
(* shape is the one SMGEmit writes: no null (NoAtom / NoPar travel as       *)
(* integers), sets as arrays, functions as arrays of pairs.                 *)
EXTENDS SMGEdit, SMGJson, Json, IOUtils

(* ------------------------- JSON -> spec values --------------------------- *)
DofJ(j) == [cls |-> j[1], atoms |-> j[2], par |-> j[3]]
PairsToFun(l) == [k \in { l[i][1] : i \in DOMAIN l } |-> l[CHOOSE i \in DOMAIN l : l[i][1] = k][2]]
ChgOfJ(l) == [c \in { l[i][1] : i \in DOMAIN l } |-> DofJ(l[CHOOSE i \in DOMAIN l : l[i][1] = c][2])]
Row1(l, a) == l[CHOOSE i \in DOMAIN l : l[i][1] = a]
Row2(l, b) == l[CHOOSE i \in DOMAIN l : {l[i][1], l[i][2]} = b]
GofJ(j) ==
   [kind |-> j.kind,
    el   |-> [a \in { j.atoms[i][1] : i \in DOMAIN j.atoms } |-> Row1(j.atoms, a)[2]],
    aat  |-> [a \in { j.atoms[i][1] : i \in DOMAIN j.atoms } |-> PairsToFun(Row1(j.atoms, a)[3])],
    bd   |-> [b \in { {j.bonds[i][1], j.bonds[i][2]} : i \in DOMAIN j.bonds } |->
                [role |-> Row2(j.bonds, b)[3], at |-> PairsToFun(Row2(j.bonds, b)[4])]],
    ast  |-> [a \in { j.ast[i][1] : i \in DOMAIN j.ast } |-> DofJ(Row1(j.ast, a)[2])],
    bst  |-> [b \in { {j.bst[i][1], j.bst[i][2]} : i \in DOMAIN j.bst } |-> DofJ(Row2(j.bst, b)[3])],
    ach  |-> [a \in { j.ach[i][1] : i \in DOMAIN j.ach } |-> ChgOfJ(Row1(j.ach, a)[2])],
    bch  |-> [b \in { {j.bch[i][1], j.bch[i][2]} : i \in DOMAIN j.bch } |-> ChgOfJ(Row2(j.bch, b)[3])]]

OpOfJ(j) == [name |-> j.name, a |-> j.a, b |-> j.b, e |-> j.e, k |-> j.k, v |-> j.v,
             d |-> DofJ(j.d), db |-> DofJ(j.db), dl |-> DofJ(j.dl), df |-> DofJ(j.df),
             m |-> PairsToFun(j.m), S |-> { j.S[i] : i \in DOMAIN j.S }, ch |-> j.ch, tk |-> j.tk,
             flag |-> j.flag]

AnsOfJ(j) == [t |-> j.t, b |-> j.b, i |-> j.i, s |-> { j.s[x] : x \in DOMAIN j.s },
              d |-> DofJ(j.d), c |-> ChgOfJ(j.c)]
=============================================================================
