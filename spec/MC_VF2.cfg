SPECIFICATION Spec
CONSTANTS
  NMax = 3
  FullChoice = TRUE
  AnyOrder = TRUE
  Prefilter = FALSE
INVARIANT IBookkeeping
INVARIANT IPartialIso
INVARIANT IStackShape
INVARIANT IExact
CHECK_DEADLOCK FALSE
