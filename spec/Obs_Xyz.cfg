SPECIFICATION XSpec
CONSTRAINT XReport
CHECK_DEADLOCK FALSE
