SPECIFICATION OSpec
CONSTRAINT OReport
CHECK_DEADLOCK FALSE
