--------------------------- MODULE MC_RefineDesign ---------------------------
(* Design-level justification of the repair of morgan_generator (DESIGN 9 #14): *)
(* over all molecule graphs on <= 4 atoms with elements {H, C},                 *)
(*   - WITH the atom's own colour a different (element, neighbour elements)     *)
(*     multiset always gives a different colour bag;                            *)
(*   - WITHOUT it (the design before the repair) there is a counterexample.     *)
EXTENDS SMGRefine, SMGIso
Bd == [role |-> "none", at |-> Emp]
Mk(el, B) == [EmptyGraph("MG") EXCEPT !.el = el, !.aat = [a \in DOMAIN el |-> Emp], !.bd = [b \in B |-> Bd]]
MGs == UNION { { Mk(el, B) : el \in [1..n -> {1, 6}], B \in SUBSET { b \in SUBSET (1..n) : Cardinality(b) = 2 } } : n \in 1..3 }
(* all pairs on <= 3 atoms here; the pairs on 4 atoms are covered by MC_IsoPairs!PairThm (family mg4) *)
ASSUME WithOwnColourSound ==
   \A g, h \in MGs : Sig(g) # Sig(h) => ColourBag(g, TRUE) # ColourBag(h, TRUE)
(* the witness: H-F + Cl-Br  versus  H-Br + Cl-F.  Without the own colour every atom carries, after one round,
   only its neighbour's element, so both graphs have the colour bag {F, H, Br, Cl} *)
W1 == Mk(<<1, 9, 17, 35>>, { {1, 2}, {3, 4} })
W2 == Mk(<<1, 35, 17, 9>>, { {1, 2}, {3, 4} })
ASSUME WithoutOwnColourUnsound ==
   /\ Sig(W1) # Sig(W2) /\ ~ExistsIso(W1, W2)
   /\ ColourBag(W1, FALSE) = ColourBag(W2, FALSE)       \* the design before the repair cannot tell them apart
   /\ ColourBag(W1, TRUE) # ColourBag(W2, TRUE)         \* the repaired design can
VARIABLE x
Init == x = 0
Next == x' = x
=============================================================================
