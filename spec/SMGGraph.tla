------------------------------ MODULE SMGGraph ------------------------------
(***************************************************************************)
(* The abstract labelled graph behind MolGraph / StereoMolGraph /          *)
(* CondensedReactionGraph / StereoCondensedReactionGraph and the pure      *)
(* operators that give the public methods their reference meaning.         *)
(*                                                                         *)
(*  g.kind : "MG" | "SMG" | "CRG" | "SCRG"                                 *)
(*  g.el   : [atoms -> element]                     (DOMAIN = atom set)    *)
(*  g.aat  : [atoms -> [attribute names -> value]]  (without atom_type)    *)
(*  g.bd   : [bonds -> [role, at]]   bond = 2-element set of atoms;        *)
(*           role \in {"none","formed","broken","fleeting"}                *)
(*  g.ast  : [atoms  -> Descr]   static atom-centred descriptors           *)
(*  g.bst  : [bonds  -> Descr]   static bond-centred descriptors           *)
(*  g.ach  : [atoms  -> [subset of Changes -> Descr]]                      *)
(*  g.bch  : [bonds  -> [subset of Changes -> Descr]]                      *)
(* Keys of ast/bst/ach/bch need not be atoms/bonds of the graph any more   *)
(* (remove_bond keeps a bond descriptor, exactly as the implementation).   *)
(***************************************************************************)
EXTENDS SMGStereo

Kinds   == {"MG", "SMG", "CRG", "SCRG"}
Changes == {"broken", "fleeting", "formed"}
Roles   == {"none"} \cup Changes

HasStereo(k)  == k \in {"SMG", "SCRG"}
HasRoles(k)   == k \in {"CRG", "SCRG"}
HasChanges(k) == k = "SCRG"

Emp == <<>>                      \* the empty function
NoD == [cls |-> "none", atoms |-> <<>>, par |-> NoPar]

EmptyGraph(k) == [kind |-> k, el |-> Emp, aat |-> Emp, bd |-> Emp,
                  ast |-> Emp, bst |-> Emp, ach |-> Emp, bch |-> Emp]
NoGraph == EmptyGraph("none")

Put(f, k, v)  == [x \in DOMAIN f \cup {k} |-> IF x = k THEN v ELSE f[x]]
Drop(f, K)    == [x \in DOMAIN f \ K |-> f[x]]
Keep(f, K)    == [x \in DOMAIN f \cap K |-> f[x]]
Merge(f, h)   == [x \in DOMAIN f \cup DOMAIN h |-> IF x \in DOMAIN h THEN h[x] ELSE f[x]]

Atoms(g) == DOMAIN g.el
Bonds(g) == DOMAIN g.bd
Nbrs(g, a) == { b \in Atoms(g) : b # a /\ {a, b} \in Bonds(g) }
Mentions(d, a) == a \in SeqRange(d.atoms)
RealAtoms(d) == SeqRange(d.atoms) \ {NoAtom}

(* maximal bonded sets, by reachability *)
RECURSIVE ReachFrom(_, _)
ReachFrom(g, S) == LET T == S \cup UNION { Nbrs(g, a) : a \in S }
                   IN IF T = S THEN S ELSE ReachFrom(g, T)
Components(g) == { ReachFrom(g, {a}) : a \in Atoms(g) }

(* atoms that take part in the reaction (active_atoms): the ends of formed and broken
   bonds - not of fleeting ones - and, for the stereo reaction class, every atom named by
   a descriptor of a stereo change; ChangeIds is defined further down *)
RoleBonds(g, r) == { b \in Bonds(g) : g.bd[b].role = r }

(* ---- coherence of the abstract state (what every view must agree on) ---- *)
Coherent(g) ==
   /\ DOMAIN g.aat = Atoms(g)
   /\ \A b \in Bonds(g) : Cardinality(b) = 2 /\ b \subseteq Atoms(g)
   /\ \A b \in Bonds(g) : g.bd[b].role \in Roles
   /\ \A a \in DOMAIN g.ast : g.ast[a].cls \in AtomClasses /\ Centre(g.ast[a]) = a /\ a \in Atoms(g)
   /\ \A b \in DOMAIN g.bst : g.bst[b].cls \in BondClasses /\ BondOf(g.bst[b]) = b
   /\ \A a \in DOMAIN g.ach : a \in Atoms(g) /\ DOMAIN g.ach[a] \subseteq Changes
                              /\ \A c \in DOMAIN g.ach[a] : Centre(g.ach[a][c]) = a
   /\ \A b \in DOMAIN g.bch : DOMAIN g.bch[b] \subseteq Changes
                              /\ \A c \in DOMAIN g.bch[b] : BondOf(g.bch[b][c]) = b
   /\ (~HasStereo(g.kind) => g.ast = Emp /\ g.bst = Emp)
   /\ (~HasChanges(g.kind) => g.ach = Emp /\ g.bch = Emp)

(* is_stereo_valid: every ligand bonded to its centre *)
StereoValid(g) ==
   /\ \A a \in DOMAIN g.ast : \A x \in RealAtoms(g.ast[a]) \ {a} : {a, x} \in Bonds(g)
   /\ \A b \in DOMAIN g.bst :
        LET t == g.bst[b].atoms IN
        /\ b \in Bonds(g)
        /\ \A i \in {1, 2} : t[i] # NoAtom => {t[i], t[3]} \in Bonds(g)
        /\ \A i \in {5, 6} : t[i] # NoAtom => {t[i], t[4]} \in Bonds(g)

(* ---------------------------- remove_atom -------------------------------- *)
PurgeChange(f, a) ==       \* per entry: drop the descriptors that mention a
   LET h == [k \in DOMAIN f |-> Keep(f[k], { c \in DOMAIN f[k] : ~Mentions(f[k][c], a) })]
   IN  Keep(h, { k \in DOMAIN h : DOMAIN h[k] # {} })
PurgeChangeWhole(f, a) ==  \* per centre: drop the whole change entry
   Keep(f, { k \in DOMAIN f : \A c \in DOMAIN f[k] : ~Mentions(f[k][c], a) })

RemoveAtomWith(g, a, P(_, _)) ==
   [g EXCEPT !.el  = Drop(@, {a}),
             !.aat = Drop(@, {a}),
             !.bd  = Keep(@, { b \in DOMAIN @ : a \notin b }),
             !.ast = Keep(@, { k \in DOMAIN @ : ~Mentions(@[k], a) }),
             !.bst = Keep(@, { k \in DOMAIN @ : ~Mentions(@[k], a) }),
             !.ach = P(@, a),
             !.bch = P(@, a)]
RemoveAtom(g, a)      == RemoveAtomWith(g, a, PurgeChange)
RemoveAtomWhole(g, a) == RemoveAtomWith(g, a, PurgeChangeWhole)

(* ------------------------------ relabel ---------------------------------- *)
Ren(m, x) == IF x \in DOMAIN m THEN m[x] ELSE x       \* NoAtom is never a key
RenSet(m, S) == { Ren(m, x) : x \in S }
RenD(m, d) == [d EXCEPT !.atoms = [i \in DOMAIN @ |-> Ren(m, @[i])]]
Inv(m, S, y) == CHOOSE x \in S : Ren(m, x) = y
InvB(m, B, y) == CHOOSE b \in B : RenSet(m, b) = y

(* every identifier that occurs anywhere in the graph *)
DescrIds(f) == UNION { RealAtoms(f[k]) : k \in DOMAIN f }
ChangeIds(f) == UNION { DescrIds(f[k]) : k \in DOMAIN f }
ActiveCore(g) == UNION (RoleBonds(g, "formed") \cup RoleBonds(g, "broken"))
                 \cup (IF HasChanges(g.kind) THEN ChangeIds(g.ach) \cup ChangeIds(g.bch) ELSE {})
AllIds(g) == Atoms(g) \cup UNION Bonds(g)
             \cup DOMAIN g.ast \cup DescrIds(g.ast) \cup UNION (DOMAIN g.bst) \cup DescrIds(g.bst)
             \cup DOMAIN g.ach \cup ChangeIds(g.ach) \cup UNION (DOMAIN g.bch) \cup ChangeIds(g.bch)
(* the renaming must be injective on the identifiers of the graph *)
RelabelOK(g, m) == \A x, y \in AllIds(g) : x # y => Ren(m, x) # Ren(m, y)

Relabel(g, m) ==
   LET A == Atoms(g) IN
   [kind |-> g.kind,
    el   |-> [y \in RenSet(m, A) |-> g.el[Inv(m, A, y)]],
    aat  |-> [y \in RenSet(m, A) |-> g.aat[Inv(m, A, y)]],
    bd   |-> [y \in { RenSet(m, b) : b \in DOMAIN g.bd } |-> g.bd[InvB(m, DOMAIN g.bd, y)]],
    ast  |-> [y \in RenSet(m, DOMAIN g.ast) |-> RenD(m, g.ast[Inv(m, DOMAIN g.ast, y)])],
    bst  |-> [y \in { RenSet(m, b) : b \in DOMAIN g.bst } |-> RenD(m, g.bst[InvB(m, DOMAIN g.bst, y)])],
    ach  |-> [y \in RenSet(m, DOMAIN g.ach) |->
                LET f == g.ach[Inv(m, DOMAIN g.ach, y)] IN [c \in DOMAIN f |-> RenD(m, f[c])]],
    bch  |-> [y \in { RenSet(m, b) : b \in DOMAIN g.bch } |->
                LET f == g.bch[InvB(m, DOMAIN g.bch, y)] IN [c \in DOMAIN f |-> RenD(m, f[c])]]]

(* ------------------------------ subgraph --------------------------------- *)
SubChange(f, S) ==
   LET h == [k \in DOMAIN f |-> Keep(f[k], { c \in DOMAIN f[k] : RealAtoms(f[k][c]) \subseteq S })]
   IN  Keep(h, { k \in DOMAIN h : DOMAIN h[k] # {} })
Subgraph(g, S) ==
   [g EXCEPT !.el  = Keep(@, S),
             !.aat = Keep(@, S),
             !.bd  = Keep(@, { b \in DOMAIN @ : b \subseteq S }),
             !.ast = Keep(@, { k \in DOMAIN @ : RealAtoms(@[k]) \subseteq S }),
             !.bst = Keep(@, { k \in DOMAIN @ : RealAtoms(@[k]) \subseteq S }),
             !.ach = SubChange(@, S),
             !.bch = SubChange(@, S)]

(* ------------------------------- compose --------------------------------- *)
(* later graph wins on overlapping atoms / bonds / descriptors / changes.    *)
(* mergeAttrs = TRUE merges attribute dictionaries (later value wins);      *)
(* FALSE replaces the dictionary wholesale (what the code does today).      *)
MergeAttr(f, h, mergeAttrs) ==
   [x \in DOMAIN f \cup DOMAIN h |->
      IF x \in DOMAIN h
        THEN IF mergeAttrs /\ x \in DOMAIN f THEN Merge(f[x], h[x]) ELSE h[x]
        ELSE f[x]]
MergeBd(f, h, mergeAttrs) ==
   [x \in DOMAIN f \cup DOMAIN h |->
      IF x \in DOMAIN h
        THEN IF mergeAttrs /\ x \in DOMAIN f
               THEN [role |-> h[x].role, at |-> Merge(f[x].at, h[x].at)] ELSE h[x]
        ELSE f[x]]
(* stereo changes are merged per (centre, change): a piece that carries only some of the changes of a centre (a
   subgraph that cuts one of the descriptors) must not wipe the others, otherwise overlapping covers would not
   reproduce the graph *)
MergeCh(f, h) == [x \in DOMAIN f \cup DOMAIN h |->
                    IF x \in DOMAIN f /\ x \in DOMAIN h THEN Merge(f[x], h[x]) ELSE IF x \in DOMAIN h THEN h[x] ELSE f[x]]
Compose2(g, h, k, mergeAttrs) ==
   [kind |-> k,
    el   |-> Merge(g.el, h.el),
    aat  |-> MergeAttr(g.aat, h.aat, mergeAttrs),
    bd   |-> MergeBd(g.bd, h.bd, mergeAttrs),
    ast  |-> IF HasStereo(k) THEN Merge(g.ast, h.ast) ELSE Emp,
    bst  |-> IF HasStereo(k) THEN Merge(g.bst, h.bst) ELSE Emp,
    ach  |-> IF HasChanges(k) THEN MergeCh(g.ach, h.ach) ELSE Emp,
    bch  |-> IF HasChanges(k) THEN MergeCh(g.bch, h.bch) ELSE Emp]
RECURSIVE ComposeFrom(_, _, _, _, _)
ComposeFrom(acc, gs, i, k, mergeAttrs) ==
   IF i > Len(gs) THEN acc ELSE ComposeFrom(Compose2(acc, gs[i], k, mergeAttrs), gs, i+1, k, mergeAttrs)
Compose(gs, k, mergeAttrs) == ComposeFrom(EmptyGraph(k), gs, 1, k, mergeAttrs)

SortedPair(b) == LET lo == CHOOSE x \in b : \A y \in b : x <= y
                     hi == CHOOSE x \in b : \A y \in b : x >= y IN <<lo, hi>>
(* any enumeration of a finite set as a sequence (Java-backed, no recursion depth limit) *)
LOCAL SX == INSTANCE SequencesExt
SetToSeqG(S) == SX!SetToSeq(S)

(* ---------------------- conversion between kinds ------------------------- *)
(* copy-constructor: the target class keeps what it can store *)
Convert(g, k) ==
   [kind |-> k, el |-> g.el, aat |-> g.aat, bd |-> g.bd,
    ast |-> IF HasStereo(k) THEN g.ast ELSE Emp,
    bst |-> IF HasStereo(k) THEN g.bst ELSE Emp,
    ach |-> IF HasChanges(k) THEN g.ach ELSE Emp,
    bch |-> IF HasChanges(k) THEN g.bch ELSE Emp]

(* ------------------------------ reactions -------------------------------- *)
FormedBonds(g)   == { b \in Bonds(g) : g.bd[b].role = "formed" }
BrokenBonds(g)   == { b \in Bonds(g) : g.bd[b].role = "broken" }
FleetingBonds(g) == { b \in Bonds(g) : g.bd[b].role = "fleeting" }

PlainBd(f, keepRoles, keepAttrs) ==
   [b \in { x \in DOMAIN f : f[x].role \in keepRoles } |->
        [role |-> "none", at |-> IF keepAttrs THEN f[b].at ELSE Emp]]

(* static descriptors, overridden by the entries of the given change kind *)
SideStereo(st, ch, c) ==
   LET K == { k \in DOMAIN ch : c \in DOMAIN ch[k] } IN
   [k \in DOMAIN st \cup K |-> IF k \in K THEN ch[k][c] ELSE st[k]]

Side(g, c, keepRoles, keepAttrs) ==
   LET k == IF HasStereo(g.kind) THEN "SMG" ELSE "MG" IN
   [kind |-> k,
    el   |-> g.el,
    aat  |-> IF keepAttrs THEN g.aat ELSE [a \in Atoms(g) |-> Emp],
    bd   |-> PlainBd(g.bd, keepRoles, keepAttrs),
    ast  |-> IF HasStereo(g.kind) THEN SideStereo(g.ast, g.ach, c) ELSE Emp,
    bst  |-> IF HasStereo(g.kind) THEN SideStereo(g.bst, g.bch, c) ELSE Emp,
    ach  |-> Emp, bch |-> Emp]
Reactant(g, keepAttrs) == Side(g, "broken", {"none", "broken"}, keepAttrs)
Product(g, keepAttrs)  == Side(g, "formed", {"none", "formed"}, keepAttrs)
TSGraph(g)             == Side(g, "fleeting", Roles, TRUE)

SwapChange(c) == IF c = "formed" THEN "broken" ELSE IF c = "broken" THEN "formed" ELSE c
SwapRole(r)   == SwapChange(r)
ReverseCh(f)  == [k \in DOMAIN f |->
                   [c \in { SwapChange(x) : x \in DOMAIN f[k] } |-> f[k][SwapChange(c)]]]
(* keepAttrs = FALSE: the attributes of formed/broken bonds are dropped (code today) *)
Reverse(g, keepAttrs) ==
   [g EXCEPT !.bd  = [b \in DOMAIN @ |->
                        IF @[b].role \in {"formed", "broken"}
                          THEN [role |-> SwapRole(@[b].role), at |-> IF keepAttrs THEN @[b].at ELSE Emp]
                          ELSE @[b]],
             !.ach = ReverseCh(@),
             !.bch = ReverseCh(@)]

(* ------------------------------ enantiomer -------------------------------- *)
InvCh(f) == [k \in DOMAIN f |-> [c \in DOMAIN f[k] |-> Invert(f[k][c])]]
Enantiomer(g) ==
   [g EXCEPT !.ast = [k \in DOMAIN @ |-> Invert(@[k])],
             !.bst = [k \in DOMAIN @ |-> Invert(@[k])],
             !.ach = InvCh(@),
             !.bch = InvCh(@)]

(* ---------------- equality of abstract graphs up to DEq ------------------ *)
SameDescrMap(f, h) == DOMAIN f = DOMAIN h /\ \A k \in DOMAIN f : DEqStrict(f[k], h[k])
SameChangeMap(f, h) == /\ DOMAIN f = DOMAIN h
                       /\ \A k \in DOMAIN f : SameDescrMap(f[k], h[k])
GraphEq(g, h) ==
   /\ g.kind = h.kind /\ g.el = h.el /\ g.aat = h.aat /\ g.bd = h.bd
   /\ SameDescrMap(g.ast, h.ast) /\ SameDescrMap(g.bst, h.bst)
   /\ SameChangeMap(g.ach, h.ach) /\ SameChangeMap(g.bch, h.bch)

(* ----------------------- structure-preserving maps ----------------------- *)
(* f : bijection Atoms(g) -> Atoms(h), as a function.                       *)
(* mode: "plain" (elements, bonds), "roles", "stereo", "full"               *)
MapD(f, d) == [d EXCEPT !.atoms = [i \in DOMAIN @ |-> IF @[i] = NoAtom THEN NoAtom ELSE f[@[i]]]]
MapsInto(f, d) == RealAtoms(d) \subseteq DOMAIN f
IsWitnessL(g, h, f, lg, lh, useRoles, useStereo, useChanges) ==
   /\ DOMAIN f = Atoms(g)
   /\ { f[a] : a \in Atoms(g) } = Atoms(h)
   /\ Cardinality(Atoms(g)) = Cardinality(Atoms(h))
   /\ \A a \in Atoms(g) : lg[a] = lh[f[a]]
   /\ { {f[x] : x \in b} : b \in Bonds(g) } = Bonds(h)
   /\ useRoles => \A b \in Bonds(g) : g.bd[b].role = h.bd[{f[x] : x \in b}].role
   /\ useStereo =>
        /\ { f[a] : a \in DOMAIN g.ast } = DOMAIN h.ast
        /\ \A a \in DOMAIN g.ast : MapsInto(f, g.ast[a]) /\ DEq(MapD(f, g.ast[a]), h.ast[f[a]])
        /\ \A b \in DOMAIN g.bst : b \subseteq DOMAIN f
        /\ { {f[x] : x \in b} : b \in DOMAIN g.bst } = DOMAIN h.bst
        /\ \A b \in DOMAIN g.bst : MapsInto(f, g.bst[b]) /\ DEq(MapD(f, g.bst[b]), h.bst[{f[x] : x \in b}])
   /\ useChanges =>
        /\ { f[a] : a \in DOMAIN g.ach } = DOMAIN h.ach
        /\ \A a \in DOMAIN g.ach :
              /\ DOMAIN g.ach[a] = DOMAIN h.ach[f[a]]
              /\ \A c \in DOMAIN g.ach[a] : MapsInto(f, g.ach[a][c]) /\ DEq(MapD(f, g.ach[a][c]), h.ach[f[a]][c])
        /\ \A b \in DOMAIN g.bch : b \subseteq DOMAIN f
        /\ { {f[x] : x \in b} : b \in DOMAIN g.bch } = DOMAIN h.bch
        /\ \A b \in DOMAIN g.bch :
              LET b2 == {f[x] : x \in b} IN
              /\ DOMAIN g.bch[b] = DOMAIN h.bch[b2]
              /\ \A c \in DOMAIN g.bch[b] : MapsInto(f, g.bch[b][c]) /\ DEq(MapD(f, g.bch[b][c]), h.bch[b2][c])

(* f carries every descriptor of g onto a RE-SPELLING of it in h: same class, same parity (also when
   unspecified), atom tuple related by the symmetry (any permutation when the parity is unspecified).
   This is the relation "h is g renamed / re-expressed" of C01; IsWitnessL is weaker when a parity is
   unspecified (an unspecified descriptor matches every descriptor over the same atoms). *)
IsRespelling(g, h, f) ==
   /\ { f[a] : a \in DOMAIN g.ast } = DOMAIN h.ast
   /\ \A a \in DOMAIN g.ast : MapsInto(f, g.ast[a]) /\ DEqStrict(MapD(f, g.ast[a]), h.ast[f[a]])
   /\ { {f[x] : x \in b} : b \in DOMAIN g.bst } = DOMAIN h.bst
   /\ \A b \in DOMAIN g.bst : MapsInto(f, g.bst[b]) /\ DEqStrict(MapD(f, g.bst[b]), h.bst[{f[x] : x \in b}])
   /\ { f[a] : a \in DOMAIN g.ach } = DOMAIN h.ach
   /\ \A a \in DOMAIN g.ach :
         /\ DOMAIN g.ach[a] = DOMAIN h.ach[f[a]]
         /\ \A c \in DOMAIN g.ach[a] : MapsInto(f, g.ach[a][c]) /\ DEqStrict(MapD(f, g.ach[a][c]), h.ach[f[a]][c])
   /\ { {f[x] : x \in b} : b \in DOMAIN g.bch } = DOMAIN h.bch
   /\ \A b \in DOMAIN g.bch :
         LET b2 == {f[x] : x \in b} IN
         /\ DOMAIN g.bch[b] = DOMAIN h.bch[b2]
         /\ \A c \in DOMAIN g.bch[b] : MapsInto(f, g.bch[b][c]) /\ DEqStrict(MapD(f, g.bch[b][c]), h.bch[b2][c])

IsWitness(g, h, f, useRoles, useStereo, useChanges) ==
   IsWitnessL(g, h, f, g.el, h.el, useRoles, useStereo, useChanges)
=============================================================================
