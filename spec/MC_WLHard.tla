------------------------------ MODULE MC_WLHard ------------------------------
(***************************************************************************)
(* Pairs of reaction graphs that colour refinement CANNOT tell apart.      *)
(* On a regular skeleton of identical atoms (prism, cube, K3,3, rings) the *)
(* role of every bond is chosen (KMin..KMax changed bonds, roles from      *)
(* RolesUsed); two labelings are the same reaction exactly when a skeleton *)
(* automorphism carries one onto the other, so one representative per      *)
(* orbit (the labeling with the least code) is kept.  For every            *)
(* representative TLC prints the bag of final colours of the design model  *)
(* of 1-WL refinement (SMGRefine).  Two different representatives with the *)
(* same bag are different reactions whose atoms all look alike to the      *)
(* refinement: equality has to be decided by the search itself.  The       *)
(* harness pairs representatives with equal bags (must compare unequal,    *)
(* C02; enumeration empty, C05) and every representative with the printed  *)
(* image under a non-trivial automorphism (must compare equal, C01; equal  *)
(* hash, C03).                                                             *)
(*   W|{code, changed, g, alt}|BAG|<the bag as TLC prints it>              *)
(***************************************************************************)
EXTENDS SMGRefine, SMGEmit

CONSTANTS Skel, RolesUsed, KMin, KMax, Kind

Edges == CASE Skel = "prism" -> { {1,2}, {2,3}, {1,3}, {4,5}, {5,6}, {4,6}, {1,4}, {2,5}, {3,6} }
           [] Skel = "cube"  -> { {1,2}, {2,3}, {3,4}, {1,4}, {5,6}, {6,7}, {7,8}, {5,8}, {1,5}, {2,6}, {3,7}, {4,8} }
           [] Skel = "k33"   -> { {a, b} : a \in 1..3, b \in 4..6 }
           [] Skel = "c6"    -> { {1,2}, {2,3}, {3,4}, {4,5}, {5,6}, {1,6} }
           [] Skel = "k4"    -> { {1,2}, {1,3}, {1,4}, {2,3}, {2,4}, {3,4} }
N == Cardinality(UNION Edges)
ESeq == SetToSeqG(Edges)
NE == Len(ESeq)
Aut == { p \in Permutations(1..N) : \A e \in Edges : { p[x] : x \in e } \in Edges }
AutSeq == SetToSeqG(Aut)
Digit(r) == CASE r = "none" -> 0 [] r = "formed" -> 1 [] r = "broken" -> 2 [] r = "fleeting" -> 3
RECURSIVE CodeFrom(_, _)
CodeFrom(L, i) == IF i > NE THEN 0 ELSE Digit(L[ESeq[i]]) + 4 * CodeFrom(L, i + 1)
LCode(L) == CodeFrom(L, 1)
Image(L, p) == [e \in Edges |-> L[{ x \in 1..N : p[x] \in e }]]       \* roles carried along p
Canonical(L) == \A p \in Aut : LCode(L) <= LCode(Image(L, p))
NChanged(L) == Cardinality({ e \in Edges : L[e] # "none" })
GraphOf(L) == [EmptyGraph(Kind) EXCEPT !.el = [a \in 1..N |-> 6], !.aat = [a \in 1..N |-> Emp],
                                        !.bd = [e \in Edges |-> [role |-> L[e], at |-> Emp]]]

VARIABLES ph, lab
vars == <<ph, lab>>
Half == NE \div 2
Init == ph = 0 /\ lab = <<>>
(* two steps, so that the workers share the enumeration *)
PickFirst == /\ ph = 0 /\ ph' = 1
             /\ lab' \in [{ ESeq[i] : i \in 1..Half } -> {"none"} \cup RolesUsed]
PickRest == /\ ph = 1 /\ ph' = 2
            /\ \E rest \in [{ ESeq[i] : i \in (Half + 1)..NE } -> {"none"} \cup RolesUsed] :
                  LET L == lab @@ rest IN
                  /\ NChanged(L) \in KMin..KMax
                  /\ Canonical(L)
                  /\ lab' = L
Next == PickFirst \/ PickRest
Spec == Init /\ [][Next]_vars

(* an image under a non-trivial automorphism (chosen by the code, so different members get different ones) *)
Alt(L) == Image(L, AutSeq[(LCode(L) % (Len(AutSeq) - 1)) + 2])
Emit ==
   ph = 2 =>
      PrintT("W|" \o JObj(<< JKV("code", JInt(LCode(lab))), JKV("changed", JInt(NChanged(lab))),
                             JKV("g", GJ(GraphOf(lab))), JKV("alt", GJ(GraphOf(Alt(lab)))) >>)
                    \o "|BAG|" \o ToString(ColourBag(GraphOf(lab), TRUE)))

ASSUME AutThm == /\ \A p \in Aut : \A q \in Aut : [x \in 1..N |-> p[q[x]]] \in Aut          \* a group
                 /\ (Skel = "cube" => Cardinality(Aut) = 48) /\ (Skel = "prism" => Cardinality(Aut) = 12)
                 /\ (Skel = "k33" => Cardinality(Aut) = 72) /\ (Skel = "k4" => Cardinality(Aut) = 24)
=============================================================================
