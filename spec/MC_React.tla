------------------------------- MODULE MC_React -------------------------------
(***************************************************************************)
(* Case enumeration for C08: triples (reactant, product, optional TS) over *)
(* a common atom set.  Family "star": carbon centre with four distinct     *)
(* ligands, three variable bonds each in one of five states (reactant      *)
(* only / product only / both / TS only / nowhere) and the centre          *)
(* descriptor chosen independently in reactant, TS and product (this       *)
(* reaches all branches of from_graphs' case analysis, class changes and   *)
(* lone-pair placeholders).  Family "ethene": the central bond in three    *)
(* states with bond descriptors chosen independently in reactant/product.  *)
(* One line per case:  R|{id, r, p, ts}   (ts = 0 when no TS is given)     *)
(***************************************************************************)
EXTENDS SMGEmit

CONSTANTS Fam, SampleMod

Bd == [role |-> "none", at |-> Emp]
D(c, t, p) == [cls |-> c, atoms |-> t, par |-> p]
MkS(el, B, ast, bst) == [EmptyGraph("SMG") EXCEPT !.el = el, !.aat = [a \in DOMAIN el |-> Emp],
                          !.bd = [b \in B |-> Bd], !.ast = ast, !.bst = bst]

BondStates == {"r", "p", "both", "ts", "none"}
InR(s) == s \in {"r", "both"}
InP(s) == s \in {"p", "both"}
InT(s) == s \in {"r", "p", "both", "ts"}

(* "stard": the same with REPEATED ligand elements, so that reactant and product can be isomorphic graphs over the same
   identifiers with different bonds (degenerate rearrangements, identity SN2: Cl4-C + Cl5 -> Cl4 + C-Cl5);
   "h3": three hydrogens, every bond among them variable (H1-H2 + H3 -> H1 + H2-H3). *)
StarEl == IF Fam = "stard" THEN (1 :> 6) @@ (2 :> 1) @@ (3 :> 1) @@ (4 :> 17) @@ (5 :> 17)
          ELSE (1 :> 6) @@ (2 :> 1) @@ (3 :> 9) @@ (4 :> 17) @@ (5 :> 35)
StarFixed == { {1,2}, {1,3} }
StarVar == << {1,4}, {1,5}, {2,3} >>
CentreChoices == { NoD, D("Tetrahedral", <<1,2,3,4,5>>, 1), D("Tetrahedral", <<1,2,3,4,5>>, -1),
                   D("Tetrahedral", <<1,3,2,4,5>>, -1),        \* = the +1 one, other spelling
                   D("SquarePlanar", <<1,2,3,4,5>>, 0), D("Tetrahedral", <<1,2,3,4,NoAtom>>, 1),
                   D("TrigonalBipyramidal", <<1,4,5,2,3,NoAtom>>, 1) }
(* the transition state may additionally carry a descriptor of unspecified parity *)
TSChoices == CentreChoices \cup { D("Tetrahedral", <<1,2,3,4,5>>, NoPar), D("TrigonalBipyramidal", <<1,4,5,2,3,NoAtom>>, NoPar) }
AstOf(d) == IF d = NoD THEN Emp ELSE (1 :> d)

StarCase(st, dr, dt, dp, withTS) ==
   LET Br == StarFixed \cup { StarVar[k] : k \in { x \in 1..3 : InR(st[x]) } }
       Bp == StarFixed \cup { StarVar[k] : k \in { x \in 1..3 : InP(st[x]) } }
       Bt == StarFixed \cup { StarVar[k] : k \in { x \in 1..3 : InT(st[x]) } }
   IN [r |-> MkS(StarEl, Br, AstOf(dr), Emp), p |-> MkS(StarEl, Bp, AstOf(dp), Emp),
       ts |-> IF withTS THEN MkS(StarEl, Bt, AstOf(dt), Emp) ELSE NoGraph]

H3El == (1 :> 1) @@ (2 :> 1) @@ (3 :> 1)
H3Var == << {1,2}, {2,3}, {1,3} >>
H3Case(st, withTS) ==
   LET Bs(In(_)) == { H3Var[k] : k \in { x \in 1..3 : In(st[x]) } } IN
   [r |-> MkS(H3El, Bs(InR), Emp, Emp), p |-> MkS(H3El, Bs(InP), Emp, Emp),
    ts |-> IF withTS THEN MkS(H3El, Bs(InT), Emp, Emp) ELSE NoGraph]

EthEl == (1 :> 1) @@ (2 :> 9) @@ (3 :> 6) @@ (4 :> 6) @@ (5 :> 1) @@ (6 :> 17)
EthFixed == { {1,3}, {2,3}, {4,5}, {4,6} }
BondChoices == { NoD, D("PlanarBond", <<1,2,3,4,5,6>>, 0), D("PlanarBond", <<1,2,3,4,6,5>>, 0),
                 D("PlanarBond", <<2,1,3,4,6,5>>, 0),           \* = the first, other spelling
                 D("AtropBond", <<1,2,3,4,5,6>>, 1), D("AtropBond", <<1,2,3,4,5,6>>, -1) }
BstOf(d) == IF d = NoD THEN Emp ELSE ({3,4} :> d)
EthCase(s, dr, dp, withTS) ==
   LET Br == EthFixed \cup (IF InR(s) THEN {{3,4}} ELSE {})
       Bp == EthFixed \cup (IF InP(s) THEN {{3,4}} ELSE {})
       Bt == EthFixed \cup (IF InT(s) THEN {{3,4}} ELSE {})
   IN [r |-> MkS(EthEl, Br, Emp, IF InR(s) THEN BstOf(dr) ELSE Emp),
       p |-> MkS(EthEl, Bp, Emp, IF InP(s) THEN BstOf(dp) ELSE Emp),
       ts |-> IF withTS THEN MkS(EthEl, Bt, Emp, Emp) ELSE NoGraph]

VARIABLES st, dr, dt, dp, wts, n         \* dr, dt, dp : indices into the choice sequences
vars == <<st, dr, dt, dp, wts, n>>

CentreSeq == SetToSeqG(CentreChoices)
TSSeq     == SetToSeqG(TSChoices)
NoDIdxT == CHOOSE k \in 1..Len(TSSeq) : TSSeq[k] = NoD
BondSeq   == SetToSeqG(BondChoices)
NoDIdxC == CHOOSE k \in 1..Len(CentreSeq) : CentreSeq[k] = NoD
BCode(s) == CASE s = "r" -> 1 [] s = "p" -> 2 [] s = "both" -> 3 [] s = "ts" -> 4 [] OTHER -> 5
StCode == IF Len(st) = 3 THEN BCode(st[1]) + 5 * BCode(st[2]) + 25 * BCode(st[3]) ELSE BCode(st[1])
Pick == SampleMod <= 1 \/ (StCode * 31 + dr * 7 + dp * 13 + dt * 3 + (IF wts THEN 1 ELSE 0)) % SampleMod = 0

Init ==
   /\ n = 0 /\ wts \in BOOLEAN
   /\ IF Fam = "h3"
        THEN /\ st \in [1..3 -> BondStates] /\ dr = 1 /\ dp = 1 /\ dt = 1
        ELSE IF Fam \in {"star", "stard"}
        THEN /\ st \in [1..3 -> BondStates] /\ dr \in 1..Len(CentreSeq) /\ dp \in 1..Len(CentreSeq)
             /\ dt \in (IF wts THEN 1..Len(TSSeq) ELSE {NoDIdxT})
        ELSE /\ st \in [1..1 -> BondStates] /\ dr \in 1..Len(BondSeq) /\ dp \in 1..Len(BondSeq) /\ dt = 1
   /\ (~wts => \A k \in DOMAIN st : st[k] # "ts")
   /\ Pick
Next == UNCHANGED vars
Spec == Init /\ [][Next]_vars

Case == IF Fam = "h3" THEN H3Case(st, wts)
        ELSE IF Fam \in {"star", "stard"} THEN StarCase(st, CentreSeq[dr], TSSeq[dt], CentreSeq[dp], wts)
        ELSE EthCase(st[1], BondSeq[dr], BondSeq[dp], wts)

Emit == PrintT("R|" \o JObj(<< JKV("r", GJ(Case.r)), JKV("p", GJ(Case.p)), JKV("ts", GJ(Case.ts)) >>))
=============================================================================
