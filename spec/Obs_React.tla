------------------------------ MODULE Obs_React ------------------------------
(***************************************************************************)
(* code -> spec for C08.  Each record holds the three input graphs and     *)
(* what the real classes produced:                                         *)
(*   x     from_graphs(r, p, ts)        xr, xp  x.reactant(), x.product()  *)
(*   rev   x.reverse_reaction()         rr, rp  rev.reactant(), product()  *)
(*   rev2  rev.reverse_reaction()                                          *)
(* The contract is stated on observable behaviour only, never on the       *)
(* encoding from_graphs chooses.                                           *)
(***************************************************************************)
EXTENDS SMGFromJson

NShards == 64

ORecs == ndJsonDeserialize(IOEnv.OBS_FILE)

SameSkeleton(g, h) == g.el = h.el /\ Bonds(g) = Bonds(h)
SameSide(obs, want) ==     \* atoms, elements, bonds and (specified parity) descriptors
   /\ SameSkeleton(obs, want)
   /\ SameDescrMap(obs.ast, want.ast) /\ SameDescrMap(obs.bst, want.bst)

OVerdict(o) ==
   LET r == GofJ(o.r)  p == GofJ(o.p)  hasTS == o.ts.kind # "none"  ts == GofJ(o.ts)
       x == GofJ(o.x)  xr == GofJ(o.xr)  xp == GofJ(o.xp)
       rev == GofJ(o.rev)  rr == GofJ(o.rr)  rp == GofJ(o.rp)  rev2 == GofJ(o.rev2)
       tsBonds == IF hasTS THEN Bonds(ts) ELSE Bonds(r) \cup Bonds(p)
   IN [id |-> o.id,
       reactant |-> SameSide(xr, r),
       product  |-> SameSide(xp, p),
       formed   |-> FormedBonds(x) = Bonds(p) \ Bonds(r),
       broken   |-> BrokenBonds(x) = Bonds(r) \ Bonds(p),
       fleeting |-> FleetingBonds(x) = tsBonds \ (Bonds(r) \cup Bonds(p)),
       allbonds |-> Bonds(x) = tsBonds,
       \* the spec's own reading of the encoding agrees with what the methods return
       encoding |-> SameSide(Reactant(x, TRUE), r) /\ SameSide(Product(x, TRUE), p),
       \* reversal swaps the sides including their stereo, keeps fleeting bonds and fleeting stereo
       revsides |-> SameSide(rr, p) /\ SameSide(rp, r),
       revfleet |-> FleetingBonds(rev) = FleetingBonds(x)
                    /\ SameDescrMap(TSGraph(rev).ast, TSGraph(x).ast) /\ SameDescrMap(TSGraph(rev).bst, TSGraph(x).bst),
       revrev   |-> GraphEq([rev2 EXCEPT !.aat = x.aat], x)]

OGood(v) == v.reactant /\ v.product /\ v.formed /\ v.broken /\ v.fleeting /\ v.allbonds /\ v.encoding
            /\ v.revsides /\ v.revfleet /\ v.revrev

VARIABLES oshard, oidx
OInit == oshard = 0 /\ oidx = 0
ONext == \/ oshard = 0 /\ oshard' \in 1..NShards /\ oidx' = 0
         \/ oshard > 0 /\ oidx = 0 /\ oidx' \in { k \in 1..Len(ORecs) : (k % NShards) + 1 = oshard } /\ UNCHANGED oshard
OSpec == OInit /\ [][ONext]_<<oshard, oidx>>

OReport ==
   IF oidx = 0 THEN TRUE
   ELSE LET v == OVerdict(ORecs[oidx]) IN
        IF OGood(v) THEN PrintT("OK|" \o JInt(v.id))
        ELSE PrintT("BAD|" \o JObj(<< JKV("id", JInt(v.id)), JKV("reactant", JBool(v.reactant)),
               JKV("product", JBool(v.product)), JKV("formed", JBool(v.formed)), JKV("broken", JBool(v.broken)),
               JKV("fleeting", JBool(v.fleeting)), JKV("allbonds", JBool(v.allbonds)), JKV("encoding", JBool(v.encoding)),
               JKV("revsides", JBool(v.revsides)), JKV("revfleet", JBool(v.revfleet)), JKV("revrev", JBool(v.revrev)) >>))
=============================================================================
