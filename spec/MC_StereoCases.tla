--------------------------- MODULE MC_StereoCases ---------------------------
(* Enumerates, for every descriptor class, every arrangement of distinct   *)
(* identifiers on the positions (all n! of them), every specified parity   *)
(* and the placeholder patterns, together with the canonical key of its    *)
(* equivalence class.  One state per case; each case is printed as one     *)
(* line "C04|{json}" for the replay harness.  The ASSUMEs are the          *)
(* theorems that guard the spec itself.                                    *)
EXTENDS SMGStereo, SMGJson

VARIABLES cls, arr, par, ph
vars == <<cls, arr, par, ph>>

(* placeholder patterns: sets of POSITIONS whose identifier is replaced by None *)
Patterns(c) ==
   IF c \in AtomClasses
     THEN {{}} \cup { {i, j} : i \in 2..Arity(c), j \in 2..Arity(c) }     \* one (i = j) or two placeholders
     ELSE {{}} \cup { {i} : i \in {1,2,5,6} } \cup { {i,j} : i \in {1,2}, j \in {5,6} }

(* with a placeholder only ligand permutations are enumerated (centre fixed) *)
LigandPerm(c, t) ==
   IF c \in AtomClasses THEN t[1] = 1
   ELSE {t[3], t[4]} = {3, 4}

Subst(t, P) == [i \in DOMAIN t |-> IF t[i] \in P THEN NoAtom ELSE t[i]]

Init == /\ cls \in Classes
        /\ par \in ClassParities(cls)
        /\ ph \in Patterns(cls)
        /\ arr \in Perms(Arity(cls))
        /\ (ph # {} => LigandPerm(cls, arr))

Next == UNCHANGED vars
Spec == Init /\ [][Next]_vars

JAtom(x) == IF x = NoAtom THEN "null" ELSE JInt(x)
CaseLine ==
  LET t == Subst(arr, ph) IN
  "C04|" \o JObj(<< JKV("cls", JStr(cls)),
                    JKV("atoms", JArr([i \in DOMAIN t |-> JAtom(t[i])])),
                    JKV("par", JInt(par)),
                    JKV("nph", JInt(Cardinality(ph))),
                    JKV("ligperm", JBool(LigandPerm(cls, arr))),
                    JKV("key", JInt(ClassKey(cls, t, par))) >>)

Emit == PrintT(CaseLine)

(***************************** theorems **********************************)
Order(c) == CASE c = "Tetrahedral" -> 12 [] c = "SquarePlanar" -> 8
              [] c = "TrigonalBipyramidal" -> 6 [] c = "Octahedral" -> 24
              [] c = "PlanarBond" -> 4 [] c = "AtropBond" -> 4

(* the generated tables are exactly the groups derived from the figures *)
ASSUME TablesAreDerived == \A c \in Classes :
   /\ GSym(c) = DerivedSym(c)
   /\ GProper(c) = DerivedProper(c)
   /\ GImproper(c) = DerivedImproper(c)

ASSUME GroupThm == \A c \in Classes :
   /\ IsGroup(Proper(c), Arity(c))
   /\ IsGroup(Sym(c), Arity(c))
   /\ Cardinality(Proper(c)) = Order(c)
   /\ Proper(c) \cup Improper(c) = Sym(c)
   /\ (Chiral(c) <=> c \notin {"SquarePlanar", "PlanarBond"})
   /\ (Chiral(c) => Cardinality(Improper(c)) = Order(c))
   /\ (~Chiral(c) => Improper(c) = Proper(c))
   \* coset: improper * proper is improper, improper * improper is proper
   /\ \A s \in Improper(c), q \in Proper(c) : PermMul(s, q) \in Improper(c)
   /\ \A s, q \in Improper(c) : PermMul(s, q) \in Proper(c)

(* number of stereoisomer classes with pairwise distinct ligands           *)
LigArr(c) == { t \in Perms(Arity(c)) : LigandPerm(c, t) }
NClasses(c) == Cardinality({ ClassKey(c, t, p) : t \in LigArr(c), p \in ClassParities(c) })
ASSUME CountThm ==
   /\ NClasses("Tetrahedral") = 2
   /\ NClasses("SquarePlanar") = 3
   /\ NClasses("TrigonalBipyramidal") = 20
   /\ NClasses("Octahedral") = 30
   /\ NClasses("PlanarBond") = 12
   /\ NClasses("AtropBond") = 12

(* ClassKey is a complete invariant of SameArr (checked on ligand perms)   *)
ASSUME KeyThm == \A c \in Classes \ {"Octahedral"} :
   \A t1, t2 \in LigArr(c) : \A p1, p2 \in ClassParities(c) :
      SameArr(c, t1, p1, t2, p2) <=> ClassKey(c, t1, p1) = ClassKey(c, t2, p2)

ASSUME InvThm == \A c \in Classes : \A p \in ClassParities(c) :
   LET d == [cls |-> c, atoms |-> IdPerm(Arity(c)), par |-> p] IN
   /\ Invert(Invert(d)) = d
   /\ (DEq(Invert(d), d) <=> ~Chiral(c))
=============================================================================
