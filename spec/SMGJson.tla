------------------------------ MODULE SMGJson ------------------------------
(* Minimal JSON text encoder (TLC evaluates \o on strings).  The community *)
(* ToJson conflates functions on 1..n with sequences, so the specs encode  *)
(* their values explicitly.                                                *)
EXTENDS Integers, Sequences, FiniteSets, TLC

RECURSIVE JJoinFrom(_, _, _)
JJoinFrom(s, i, sep) ==
   IF i > Len(s) THEN ""
   ELSE IF i = Len(s) THEN s[i]
   ELSE s[i] \o sep \o JJoinFrom(s, i+1, sep)
JJoin(s, sep) == JJoinFrom(s, 1, sep)

JInt(n)  == ToString(n)
JStr(s)  == "\"" \o s \o "\""
JArr(s)  == "[" \o JJoin(s, ",") \o "]"            \* s : sequence of JSON texts
JKV(k, v) == JStr(k) \o ":" \o v
JObj(s)  == "{" \o JJoin(s, ",") \o "}"            \* s : sequence of JKV texts
JBool(b) == IF b THEN "true" ELSE "false"

(* a set of JSON texts as an array, in TLC's normalised (sorted) set order *)
LOCAL SXJ == INSTANCE SequencesExt
SetToSeq(S) == SXJ!SetToSeq(S)
JSetArr(S) == JArr(SetToSeq(S))

JIntSeq(s) == JArr([i \in DOMAIN s |-> JInt(s[i])])
=============================================================================
