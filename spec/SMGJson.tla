------------------------------ MODULE SMGJson ------------------------------
(* Minimal JSON text encoder (TLC evaluates \o on strings).  The community *)
(* ToJson conflates functions on 1..n with sequences, so the specs encode  *)
(* their values explicitly.                                                *)
EXTENDS Integers, Sequences, FiniteSets, TLC

(* balanced, so that the recursion depth is logarithmic (a linear join overflows the Java stack near 700 items) *)
RECURSIVE JJoinR(_, _, _, _)
JJoinR(s, lo, hi, sep) ==
   IF lo > hi THEN ""
   ELSE IF lo = hi THEN s[lo]
   ELSE LET mid == (lo + hi) \div 2 IN JJoinR(s, lo, mid, sep) \o sep \o JJoinR(s, mid + 1, hi, sep)
JJoin(s, sep) == JJoinR(s, 1, Len(s), sep)

JInt(n)  == ToString(n)
JStr(s)  == "\"" \o s \o "\""
JArr(s)  == "[" \o JJoin(s, ",") \o "]"            \* s : sequence of JSON texts
JKV(k, v) == JStr(k) \o ":" \o v
JObj(s)  == "{" \o JJoin(s, ",") \o "}"            \* s : sequence of JKV texts
JBool(b) == IF b THEN "true" ELSE "false"

(* a set of JSON texts as an array, in TLC's normalised (sorted) set order *)
LOCAL SXJ == INSTANCE SequencesExt
SetToSeq(S) == SXJ!SetToSeq(S)
JSetArr(S) == JArr(SetToSeq(S))

JIntSeq(s) == JArr([i \in DOMAIN s |-> JInt(s[i])])
=============================================================================
