SPECIFICATION BSpec
CONSTRAINT BReport
CHECK_DEADLOCK FALSE
