------------------------------ MODULE Obs_BondOrd ------------------------------
(***************************************************************************)
(* code -> spec for C18: record                                            *)
(*   {id, els, ac, bo, charges, unpaired, lewis}                           *)
(* ac: input connectivity, bo: assigned bond orders (integers; a           *)
(* non-integer order is sent as -1), lewis: TRUE when the input is         *)
(* certified (by RDKit's kekulised structure) to be a neutral closed-shell *)
(* molecule of the supported elements in their standard valences.          *)
(*   Structural : bo symmetric, bo[i][j] >= 1 exactly on bonded pairs,     *)
(*                0 elsewhere (diagonal included)                          *)
(*   LewisOK    : every row sum is a standard valence of the element, no   *)
(*                charge, no unpaired electron          (only if lewis)    *)
(***************************************************************************)
EXTENDS Integers, Sequences, FiniteSets, TLC, SMGJson, Json, IOUtils
BRecs == ndJsonDeserialize(IOEnv.OBS_FILE)
NShards == 64
StdValences(e) == CASE e = 1 -> {1} [] e = 6 -> {4} [] e = 7 -> {3} [] e = 8 -> {2} [] e = 9 -> {1}
                    [] e = 17 -> {1} [] e = 35 -> {1} [] e = 53 -> {1} [] e = 16 -> {2, 6} [] e = 15 -> {3, 5}
                    [] OTHER -> {}
RECURSIVE SumFrom(_, _)
SumFrom(s, i) == IF i > Len(s) THEN 0 ELSE s[i] + SumFrom(s, i + 1)
Structural(o) ==
   LET n == Len(o.els) IN
   /\ Len(o.bo) = n /\ \A i \in 1..n : Len(o.bo[i]) = n
   /\ \A i, j \in 1..n : o.bo[i][j] = o.bo[j][i]
   /\ \A i, j \in 1..n : IF o.ac[i][j] = 1 /\ i # j THEN o.bo[i][j] >= 1 ELSE o.bo[i][j] = 0
LewisOK(o) ==
   LET n == Len(o.els) IN
   /\ \A i \in 1..n : SumFrom(o.bo[i], 1) \in StdValences(o.els[i])
   /\ \A i \in 1..n : o.charges[i] = 0 /\ o.unpaired[i] = 0
(* when the molecule can be written with the lowest standard valence of every atom (o.lowest: known by construction), the
   perception must not make an atom hypervalent: a disulfide is S(II)-S(II), not S(VI) with a quintuple bond *)
MinStd(e) == CHOOSE v \in StdValences(e) : \A w \in StdValences(e) : v <= w
LowestOK(o) == \A i \in 1..Len(o.els) : SumFrom(o.bo[i], 1) = MinStd(o.els[i])
BVerdict(o) == [id |-> o.id, structural |-> Structural(o), lewis |-> (~o.lewis) \/ LewisOK(o),
                lowest |-> (~o.lowest) \/ ~LewisOK(o) \/ LowestOK(o)]
VARIABLES bshard, bidx
BInit == bshard = 0 /\ bidx = 0
BNext == \/ bshard = 0 /\ bshard' \in 1..NShards /\ bidx' = 0
         \/ bshard > 0 /\ bidx = 0 /\ bidx' \in { k \in 1..Len(BRecs) : (k % NShards) + 1 = bshard } /\ UNCHANGED bshard
BSpec == BInit /\ [][BNext]_<<bshard, bidx>>
BReport ==
   IF bidx = 0 THEN TRUE
   ELSE LET v == BVerdict(BRecs[bidx]) IN
        IF v.structural /\ v.lewis /\ v.lowest THEN PrintT("OK|" \o JInt(v.id))
        ELSE PrintT("BAD|" \o JObj(<< JKV("id", JInt(v.id)), JKV("structural", JBool(v.structural)), JKV("lewis", JBool(v.lewis)),
                                      JKV("lowest", JBool(v.lowest)) >>))
=============================================================================
