------------------------------- MODULE SMGIso -------------------------------
(***************************************************************************)
(* Structure-preserving bijections between two abstract graphs: the        *)
(* reference meaning of ==, is_isomorphic and vf2pp_all_isomorphisms.      *)
(* Isos enumerates ALL witnesses by a recursive extension that only prunes *)
(* with what IsWitness demands anyway (label, degree, adjacency with the   *)
(* atoms mapped so far, roles), and filters the complete bijections with   *)
(* the stereo clauses of SMGGraph!IsWitness.                               *)
(***************************************************************************)
EXTENDS SMGGraph

Deg(g, a) == Cardinality(Nbrs(g, a))

RECURSIVE Ext(_, _, _, _, _, _, _, _)
Ext(g, h, lg, lh, useRoles, ord, k, f) ==
   IF k > Len(ord) THEN {f}
   ELSE LET a == ord[k]
            used == { f[x] : x \in DOMAIN f }
            cands == { b \in Atoms(h) \ used :
                         /\ lg[a] = lh[b]
                         /\ Deg(g, a) = Deg(h, b)
                         /\ \A x \in DOMAIN f :
                              /\ ({a, x} \in Bonds(g)) = ({b, f[x]} \in Bonds(h))
                              /\ (useRoles /\ {a, x} \in Bonds(g)) =>
                                    g.bd[{a, x}].role = h.bd[{b, f[x]}].role }
        IN UNION { Ext(g, h, lg, lh, useRoles, ord, k + 1, f @@ (a :> b)) : b \in cands }

(* atoms in breadth-first order (component by component), so that every atom but the first of a
   component is adjacent to an atom mapped before it and the candidate sets stay small *)
RECURSIVE BfsFrom(_, _, _)
BfsFrom(g, seq, rest) ==
   IF rest = {} THEN seq
   ELSE LET done == { seq[i] : i \in DOMAIN seq }
            front == { a \in rest : \E b \in done : {a, b} \in Bonds(g) }
            nxt == IF front # {} THEN CHOOSE a \in front : TRUE ELSE CHOOSE a \in rest : TRUE
        IN BfsFrom(g, Append(seq, nxt), rest \ {nxt})
AtomOrder(g) == BfsFrom(g, <<>>, Atoms(g))

(* all witnesses; lg / lh are the atom labels that must be preserved       *)
IsosL(g, h, lg, lh, useRoles, useStereo, useChanges) ==
   IF Cardinality(Atoms(g)) # Cardinality(Atoms(h)) THEN {}
   ELSE { f \in Ext(g, h, lg, lh, useRoles, AtomOrder(g), 1, <<>>) :
             IsWitnessL(g, h, f, lg, lh, useRoles, useStereo, useChanges) }

(* existence only: stops at the first witness (TLC evaluates \E lazily) *)
RECURSIVE ExExt(_, _, _, _, _, _, _, _, _, _)
ExExt(g, h, lg, lh, useRoles, useStereo, useChanges, ord, k, f) ==
   IF k > Len(ord) THEN IsWitnessL(g, h, f, lg, lh, useRoles, useStereo, useChanges)
   ELSE LET a == ord[k]
            used == { f[x] : x \in DOMAIN f }
            cands == { b \in Atoms(h) \ used :
                         /\ lg[a] = lh[b]
                         /\ Deg(g, a) = Deg(h, b)
                         /\ \A x \in DOMAIN f :
                              /\ ({a, x} \in Bonds(g)) = ({b, f[x]} \in Bonds(h))
                              /\ (useRoles /\ {a, x} \in Bonds(g)) =>
                                    g.bd[{a, x}].role = h.bd[{b, f[x]}].role }
        IN \E b \in cands : ExExt(g, h, lg, lh, useRoles, useStereo, useChanges, ord, k + 1, f @@ (a :> b))
ExistsIsoL(g, h, lg, lh, useRoles, useStereo, useChanges) ==
   /\ Cardinality(Atoms(g)) = Cardinality(Atoms(h))
   /\ ExExt(g, h, lg, lh, useRoles, useStereo, useChanges, AtomOrder(g), 1, <<>>)
ExistsIso(g, h) == g.kind = h.kind /\
   ExistsIsoL(g, h, g.el, h.el, HasRoles(g.kind), HasStereo(g.kind), HasChanges(g.kind))

(* default labels: the elements; roles/stereo/changes according to the kind *)
Isos(g, h) == IsosL(g, h, g.el, h.el, HasRoles(g.kind), HasStereo(g.kind), HasChanges(g.kind))
Isomorphic(g, h) == g.kind = h.kind /\ Isos(g, h) # {}

(* C16: multiset of (element, elements of bonded neighbours) as a set of     *)
(* (signature, multiplicity) pairs                                          *)
NbrBag(g, a) == { <<e, Cardinality({ b \in Nbrs(g, a) : g.el[b] = e })>> : e \in { g.el[b] : b \in Nbrs(g, a) } }
AtomSig(g, a) == <<g.el[a], NbrBag(g, a)>>
Sig(g) == { <<s, Cardinality({ a \in Atoms(g) : AtomSig(g, a) = s })>> : s \in { AtomSig(g, a) : a \in Atoms(g) } }
=============================================================================
