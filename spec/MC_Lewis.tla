------------------------------- MODULE MC_Lewis -------------------------------
(***************************************************************************)
(* C18, chemical half, decided by construction: TLC builds EVERY neutral   *)
(* closed-shell molecule with NHeavy heavy atoms of the supported elements *)
(* in their standard valences as a Lewis structure                         *)
(*    heavy-atom skeleton (connected)  x  bond orders 1..3  x  a standard  *)
(*    valence per atom not below its bond-order sum  x  hydrogens filling  *)
(*    every atom up to that valence                                        *)
(* forgets the bond orders, and lists the atoms in several orders          *)
(* (identity, reversal, affine shuffles).  By construction an assignment   *)
(* that gives every atom a standard valence exists, so the perception      *)
(* must return one, whatever the order (several may exist: resonance       *)
(* structures; any is accepted by Obs_BondOrd).                            *)
(*   L|{els, ac, heavy, orders}                                            *)
(***************************************************************************)
EXTENDS Integers, Sequences, FiniteSets, TLC, SMGJson
CONSTANTS NHeavy, SampleMod, NPerm,
          ElN,      \* only the first ElN of HeavyEls are used

          Shape     \* "any": every connected skeleton, elements in non-decreasing order;  "path" / "ring": the chain 1-2-..-n
                    \* (closed to a ring), elements in any order
HeavyEls == <<6, 7, 8, 16, 15, 9>>
Std(e) == CASE e = 1 -> {1} [] e = 6 -> {4} [] e = 7 -> {3} [] e = 8 -> {2} [] e = 9 -> {1}
            [] e = 16 -> {2, 6} [] e = 15 -> {3, 5}
Pairs == { b \in SUBSET (1..NHeavy) : Cardinality(b) = 2 }
RECURSIVE Reach(_, _)
Reach(B, S) == LET T == S \cup { x \in 1..NHeavy : \E y \in S : {x, y} \in B } IN IF T = S THEN S ELSE Reach(B, T)
Connected(B) == Reach(B, {1}) = 1..NHeavy

Chain == { {i, i + 1} : i \in 1..(NHeavy - 1) }
Skeletons == CASE Shape = "path" -> { Chain }
               [] Shape = "ring" -> { Chain \cup { {1, NHeavy} } }
               [] OTHER -> { x \in SUBSET Pairs : Connected(x) }

VARIABLES ph, el, bo, tv, pk  \* phase; elements (index into HeavyEls, nondecreasing); bond orders; target valences; permutation number
vars == <<ph, el, bo, tv, pk>>
RECURSIVE SumOver(_, _)
SumOver(b, X) == IF X = {} THEN 0 ELSE LET x == CHOOSE y \in X : TRUE IN b[x] + SumOver(b, X \ {x})
ValSum(b, a) == SumOver(b, { x \in DOMAIN b : a \in x })
Code(e, b, t, k) == (Cardinality(DOMAIN b) * 37 + e[1] * 5 + e[NHeavy] * 11 + ValSum(b, 1) * 101 + t[NHeavy] * 7 + k * 13)
(* three phases so that TLC's workers share the enumeration: 0 -> 1 picks elements and skeleton, 1 -> 2 the bond
   orders, target valences and atom order *)
Init == ph = 0 /\ el = <<>> /\ bo = <<>> /\ tv = <<>> /\ pk = 0
PickSkeleton ==
   /\ ph = 0 /\ ph' = 1
   /\ el' \in { f \in [1..NHeavy -> 1..ElN] : Shape # "any" \/ \A i \in 1..(NHeavy - 1) : f[i] <= f[i + 1] }
   /\ \E B \in Skeletons : bo' = [b \in B |-> 1]
   /\ UNCHANGED <<tv, pk>>
PickOrders ==
   /\ ph = 1 /\ ph' = 2 /\ UNCHANGED el
   /\ bo' \in [DOMAIN bo -> 1..3]
   /\ \E hi \in [1..NHeavy -> BOOLEAN] :        \* an element has at most two standard valences: the lower or the higher one
         LET S(a) == Std(HeavyEls[el[a]])
             Lo(a) == CHOOSE v \in S(a) : \A w \in S(a) : v <= w
             Hi(a) == CHOOSE v \in S(a) : \A w \in S(a) : v >= w
             t == [a \in 1..NHeavy |-> IF hi[a] THEN Hi(a) ELSE Lo(a)] IN
         /\ \A a \in 1..NHeavy : (hi[a] => Hi(a) # Lo(a)) /\ t[a] >= ValSum(bo', a)
         /\ tv' = t
   /\ pk' \in 0..(NPerm - 1)
   /\ (SampleMod <= 1 \/ Code(el, bo', tv', pk') % SampleMod = 0)
Next == PickSkeleton \/ PickOrders
Spec == Init /\ [][Next]_vars

(* the molecule: heavy atoms 1..NHeavy, then the hydrogens of atom 1, of atom 2, ... *)
NH(a) == tv[a] - ValSum(bo, a)
RECURSIVE HBefore(_)
HBefore(a) == IF a = 1 THEN 0 ELSE HBefore(a - 1) + NH(a - 1)
NTot == NHeavy + HBefore(NHeavy) + NH(NHeavy)
Owner(h) == CHOOSE a \in 1..NHeavy : NHeavy + HBefore(a) < h /\ h <= NHeavy + HBefore(a) + NH(a)
ElOf(x) == IF x <= NHeavy THEN HeavyEls[el[x]] ELSE 1
Bonded(x, y) == \/ x <= NHeavy /\ y <= NHeavy /\ {x, y} \in DOMAIN bo
                \/ x <= NHeavy /\ y > NHeavy /\ Owner(y) = x
                \/ y <= NHeavy /\ x > NHeavy /\ Owner(x) = y
(* atom orders: position i of the output holds original atom Perm[i] *)
GCD1(a, n) == \A d \in 2..a : ~(a % d = 0 /\ n % d = 0)
Mult(n) == IF n <= 2 THEN 1 ELSE CHOOSE a \in ((n \div 2) + 1)..n : GCD1(a, n) /\ \A c \in ((n \div 2) + 1)..(a - 1) : ~GCD1(c, n)
Perm(n, k) == CASE k = 0 -> [i \in 1..n |-> i]
                [] k = 1 -> [i \in 1..n |-> n + 1 - i]
                [] OTHER -> [i \in 1..n |-> (((i - 1) * Mult(n) + k) % n) + 1]
Emit ==
   ph = 2 =>
   LET n == NTot  p == Perm(n, pk) IN
   PrintT("L|" \o JObj(<<
      JKV("els", JIntSeq([i \in 1..n |-> ElOf(p[i])])),
      JKV("ac", JArr([i \in 1..n |-> JIntSeq([j \in 1..n |-> IF i # j /\ Bonded(p[i], p[j]) THEN 1 ELSE 0])])),
      JKV("heavy", JIntSeq([i \in 1..NHeavy |-> HeavyEls[el[i]]])),
      JKV("orders", JSetArr({ JIntSeq(<<CHOOSE x \in b : \A y \in b : x <= y, CHOOSE x \in b : \A y \in b : x >= y, bo[b]>>) : b \in DOMAIN bo })),
      \* TRUE when the construction uses the LOWEST standard valence of every atom: then no hypervalent structure is needed
      JKV("lowest", JBool(\A a \in 1..NHeavy : \A v \in Std(HeavyEls[el[a]]) : tv[a] <= v)),
      JKV("perm", JInt(pk)) >>))
=============================================================================
