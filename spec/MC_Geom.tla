------------------------------- MODULE MC_Geom -------------------------------
(***************************************************************************)
(* C07 / C14: idealised coordination figures on the integer lattice.       *)
(* For a class c the case is                                               *)
(*    placement : which identifier sits on which figure position           *)
(*    rot       : one of the 24 proper lattice rotations                   *)
(*    mirror    : reflect the whole figure (x -> -x)                       *)
(* and the expectation is the descriptor whose atom tuple is the           *)
(* placement and whose parity is FigParity(c), negated under reflection.   *)
(* The absolute handedness convention FigParity is DERIVED from the class  *)
(* docstrings (not from the perception code):                              *)
(*  Tetrahedral / TrigonalBipyramidal: with the first (axial) ligand       *)
(*    rotated to the back, the remaining (equatorial) ligands in tuple     *)
(*    order turn counter-clockwise for parity +1;                          *)
(*  Octahedral: seen from the first axial ligand, the four ring ligands in *)
(*    tuple order turn counter-clockwise for parity +1.                    *)
(* Every spelling of the expected descriptor (its whole DEq class) is      *)
(* printed, so the harness only tests membership.                          *)
(***************************************************************************)
EXTENDS SMGStereo, SMGJson

CONSTANTS Cls, SampleMod

(* handedness of ligands a -> b (-> ...) about the axis centre -> v, seen from the tip of v:
   +1 counter-clockwise, -1 clockwise *)
CCWSeenFrom(F, a, b, v) == Sign(Det3(Sub(F[a], F[1]), Sub(F[b], F[1]), Sub(F[v], F[1])))
FigParity(c) ==
   LET F == Figure(c) IN
   CASE c = "Tetrahedral" -> -CCWSeenFrom(F, 3, 4, 2)           \* ligand 1 (position 2) at the back
     [] c = "TrigonalBipyramidal" -> -CCWSeenFrom(F, 4, 5, 2)   \* first axial ligand at the back
     [] c = "Octahedral" -> CCWSeenFrom(F, 4, 5, 2)             \* seen from the first axial ligand
     [] OTHER -> 0

(* the 24 proper rotations of the cubic lattice: signed axis permutations with determinant +1 *)
AxisPerms == Permutations(1..3)
PermSign(p) == IF p \in { <<1,2,3>>, <<2,3,1>>, <<3,1,2>> } THEN 1 ELSE -1
Rots == { r \in AxisPerms \X [1..3 -> {1, -1}] : PermSign(r[1]) * r[2][1] * r[2][2] * r[2][3] = 1 }
RotSeq == SetToSeq(Rots)
Apply(r, pt) == [k \in 1..3 |-> r[2][k] * pt[r[1][k]]]
Mirror(pt) == <<-pt[1], pt[2], pt[3]>>

VARIABLES place, rot, mir
vars == <<place, rot, mir>>

N == Arity(Cls)
(* the centre keeps identifier 1 on position 1; ligand identifiers 2..N are placed on positions 2..N *)
Placements == IF Cls = "PlanarBond"
                THEN { t \in Perms(N) : {t[3], t[4]} = {3, 4} }      \* bond atoms 3, 4; substituents 1, 2, 5, 6 anywhere
                ELSE { t \in Perms(N) : t[1] = 1 }
PlaceSeq == SetToSeq(Placements)
Pick(i, r, m) == SampleMod <= 1 \/ (i * 131 + r * 17 + (IF m THEN 7 ELSE 0)) % SampleMod = 0

Init == /\ place \in 1..Len(PlaceSeq) /\ rot \in 1..Len(RotSeq) /\ mir \in BOOLEAN
        /\ Pick(place, rot, mir)
Next == UNCHANGED vars
Spec == Init /\ [][Next]_vars

Point(k) ==       \* lattice point of figure position k after rotation / reflection
   LET p0 == Apply(RotSeq[rot], Figure(Cls)[k]) IN IF mir THEN Mirror(p0) ELSE p0
ExpPar == IF Cls \in {"SquarePlanar", "PlanarBond"} THEN 0 ELSE FigParity(Cls) * (IF mir THEN -1 ELSE 1)
T == PlaceSeq[place]          \* T[k] = identifier on position k
(* every spelling of the expected descriptor *)
Spellings ==
   { <<ArrPerm(T, pi), ExpPar>> : pi \in Proper(Cls) } \cup
   (IF ExpPar = 0 THEN {} ELSE { <<ArrPerm(T, pi), -ExpPar>> : pi \in Improper(Cls) })

Emit == PrintT("M|" \o JObj(<<
   JKV("cls", JStr(Cls)),
   JKV("atoms", JIntSeq(T)),
   JKV("par", JInt(ExpPar)),
   JKV("mirror", JBool(mir)),
   JKV("coords", JArr([k \in 1..N |-> JArr(<<JInt(T[k]), JIntSeq(Point(k))>>)])),
   JKV("spellings", JSetArr({ JArr(<<JIntSeq(s[1]), JInt(s[2])>>) : s \in Spellings })) >>))

ASSUME ConventionThm ==      \* FigParity is +-1 exactly for the chiral classes
   /\ FigParity("Tetrahedral") \in {1, -1} /\ FigParity("TrigonalBipyramidal") \in {1, -1}
   /\ FigParity("Octahedral") \in {1, -1} /\ Cardinality(Rots) = 24
=============================================================================
