#!/venv/bin/python
"""Regenerates MANIFEST.json from the table below (single place to edit)."""
import json
import sys
from pathlib import Path

VERIF = Path(__file__).resolve().parent.parent
PROPS = [json.loads(l)["id"] for l in (VERIF / "properties.jsonl").read_text().splitlines() if l.strip()]

TRUST = ("TLC 1.8 evaluates the TLA+ modules in /verif/spec correctly; the Python harness only drives the public API, "
         "projects public views and compares JSON; ")

CHECKS = {
    "C04": dict(
        category="model_checking",
        text="The case space is finite and TLC enumerates it completely (every arrangement of ids on the positions of each of the "
             "six figures x parities x placeholder patterns, 25k cases) with a canonical class key derived from figure geometry; "
             "every case is constructed as a real descriptor and ==/hash/invert are compared with the keys on ~1M (quick) / all "
             "(thorough) ordered pairs; the public permutation tables are additionally checked by TLC against the derived groups.",
        design_ref="DESIGN.md 3.1, 6 (C04)",
        note=TRUST + "the idealised integer figures in SMGStereo.tla are the definition of 'same spatial arrangement'.",
        technique="TLA+ spec (figure geometry -> symmetry groups) model-checked by TLC; TLC-enumerated cases replayed on the real descriptor classes; table dump validated by TLC",
    ),
}

EDIT_NOTE = TRUST + ("spec/SMGEdit.tla (Outcomes) is the reference meaning of every public operation; behaviour no property pins is an "
                     "explicit set of allowed outcomes (DESIGN appendix A); universes are bounded (3-4 ids, 2 elements, fixed descriptor menu) "
                     "for the exhaustive direction, 10-30 ids / all elements / all classes for the recorded direction.")
EDIT_TECH = ("TLA+ state machine of all public operations (MC_Edit) explored by TLC, every generated transition replayed on real objects "
             "with full-view projection; random real histories recorded and validated step by step by TLC (Trace_Edit)")
CHECKS.update({
    "C09": dict(category="model_checking",
        text="TLC explores the bounded state graph of the edit machine for all four classes (profiles E1-E4: every mutator, query and "
             "ill-formed request at every reachable state up to the depth bound) and every transition is executed on a real object reached "
             "through a genuine history; after each step all public views are projected, checked against each other and against the spec "
             "post-state. In the other direction seeded random histories (10-30 ids, all elements, all descriptor classes) are logged call "
             "by call and each record is validated by TLC against the same Outcomes operator.",
        design_ref="DESIGN.md 3.3, 4, 6 (C09)", note=EDIT_NOTE, technique=EDIT_TECH),
    "C19": dict(category="model_checking",
        text="Same state graphs as C09: at every reachable state every rejected-request action (unknown atom/bond, self bond, bad element, "
             "wrong reaction label through add_bond / set_bond_attribute / add_formed|broken|fleeting_bond, a renaming that merges two atoms, a bond-order "
             "matrix with a diagonal entry, several/no centres, descriptor on unknown centre, delete atom_type) and every lookup about absent atoms "
             "or bonds is fired; the spec demands an exception (any type) resp. raise-or-negative answer and an identical full projection. "
             "Random histories inject ill-formed requests and are validated by TLC.",
        design_ref="DESIGN.md 3.3, 6 (C19)", note=EDIT_NOTE, technique=EDIT_TECH + "; fault enumeration at every reachable state"),
    "C10": dict(category="model_checking",
        text="Two-slot machine: from every seed graph (all small MG/CRG graphs over 2-3 ids; star/chain skeletons with descriptors and "
             "stereo changes) every derivation (copy, copy-constructor into each class, relabel copy, subgraph, compose, enantiomer, "
             "reverse, reactant/product, JSON) is followed by every follow-up mutator on either side; TLC gives the expected state of both "
             "slots and the untouched side must keep its projection. Random histories keep a pool of live objects and snapshot all of them "
             "around every call.",
        design_ref="DESIGN.md 3.3, 6 (C10)", note=EDIT_NOTE, technique=EDIT_TECH),
    "C11": dict(category="model_checking",
        text="Every injective partial renaming over the universe plus a fresh id (keys that are not atoms included) is applied in place and "
             "into a copy from every seed state; results must equal Relabel(g,m) of the spec, the source of a copy must not move, and the "
             "walk continues with follow-up queries, edits, == and hash and with a second derivation (reactant, product, reverse, JSON, copy, "
             "enantiomer) on the relabelled graph; seeds with several descriptors on neighbouring keys (swaps, shifts). Random total/partial renamings on 10-30 "
             "atom graphs are validated by TLC.",
        design_ref="DESIGN.md 6 (C11)", note=EDIT_NOTE, technique=EDIT_TECH),
    "C17": dict(category="model_checking",
        text="For every seed graph of all four classes: subgraph for subsets given as list, set, tuple and one-shot iterator; "
             "connected_components against the spec's reachability-based Components; compose of component subgraphs; compose of overlapping "
             "pieces in both orders (later wins; stereo changes merged per change) and one further edit on the result; all compared with "
             "Subgraph/Compose of the spec; the cover law (a graph composed with one of its induced subgraphs is the graph again) is an action "
             "property of MC_Edit; subsets also as numpy arrays, pieces also as one-shot iterators; mixed classes (a reaction graph composed with "
             "its own reactant / product / converted copy, profile K6). "
             "Random covers on larger graphs validated by TLC.",
        design_ref="DESIGN.md 6 (C17)", note=EDIT_NOTE, technique=EDIT_TECH),
})

ISO_NOTE = TRUST + ("spec/SMGIso.tla (Isos = every structure-preserving bijection by exhaustive extension, DEq for descriptors) is the "
                    "oracle; MC_IsoPairs checks reflexivity / symmetry / Sig-invariance of the oracle on every pair; families are bounded "
                    "(graphs on <= 4 ids x {H,C}, reaction graphs on <= 3 ids, stereo templates up to 8 atoms); the two members of a pair "
                    "get disjoint identifier sets and different insertion orders.")
ISO_TECH = ("TLA+ brute-force isomorphism oracle (SMGIso) evaluated by TLC on enumerated case families (MC_IsoPairs); every pair replayed "
            "on the real classes; reaction graphs that 1-WL colour refinement cannot separate (MC_WLHard: orbit representatives of "
            "bond-role labelings on regular skeletons, paired by equal colour bag of the refinement design model)")
CHECKS.update({
    "C01": dict(category="model_checking",
        text="For every pair for which TLC's exhaustive search finds a structure-preserving bijection (each family member against "
             "itself under renaming to a disjoint id set, another insertion order and re-expressed descriptors, static or inside "
             "stereo changes, with placeholders) ==, the reversed comparison and is_isomorphic must be True; includes empty graphs, "
             "isolated atoms and disconnected graphs (all graphs on <= 4 ids). The edit-machine replay additionally compares every two "
             "real objects that reach the same abstract state by different histories.",
        design_ref="DESIGN.md 3.4, 6 (C01)", note=ISO_NOTE, technique=ISO_TECH),
    "C02": dict(category="model_checking",
        text="For every enumerated pair for which TLC's exhaustive search over all atom bijections finds NO witness (all pairs with "
             "equal cheap invariants plus a sample of the rest: element / bond / role differences, enantiomers, diastereomers, E/Z, "
             "lone-pair centres, formed-vs-broken) the real == must be False in both directions; all 12 ordered pairs of distinct "
             "classes on identical content (empty and non-empty) must be unequal.",
        design_ref="DESIGN.md 6 (C02)", note=ISO_NOTE, technique=ISO_TECH),
    "C03": dict(category="model_checking",
        text="Every pair TLC proves isomorphic must have equal hashes (renaming, insertion order, symmetry-equivalent orderings, "
             "(ordering, parity) vs (mirrored ordering, -parity)); a sample of non-empty graphs of all four classes is hashed in fresh "
             "interpreters under several PYTHONHASHSEED values and compared.",
        design_ref="DESIGN.md 6 (C03)", note=ISO_NOTE, technique=ISO_TECH + "; subprocess hashing under different PYTHONHASHSEED"),
    "C05": dict(category="model_checking",
        text="For every enumerated pair of non-reaction families the list yielded by vf2pp_all_isomorphisms(stereo as the class "
             "demands) is compared as a set with TLC's complete set of bijections (translated through the two identifier maps): no "
             "invalid, missing or duplicate mapping; self pairs give the automorphism group. The VF2++ loop itself is specified as a "
             "TLA+ state machine (spec/VF2.tla; MC_VF2: exact for ALL pairs of labelled graphs on <= 3 / 4 atoms, every matching order, "
             "every order of taking candidates); runs of the real loop recorded through the env-guarded tracer are replayed step by step "
             "(Trace_VF2: logged state = specification's successor state, invariants in every state) and their yields compared with the "
             "specification's own run on the same instance (random graphs <= 7 atoms, hydrogen-free polycyclic skeletons, corpus molecules up to "
             "60 atoms).",
        design_ref="DESIGN.md 6 (C05), 11.5", note=ISO_NOTE, technique=ISO_TECH + "; VF2++ loop model (VF2.tla/MC_VF2) + trace validation of the instrumented loop (Trace_VF2)"),
    "C06": dict(category="model_checking",
        text="For every stereo family member TLC gives Enantiomer(g) and whether a bijection onto it exists; enantiomer() must project "
             "to it key by key (atom, bond/axis, inside atom and bond stereo changes), leave the source untouched, be an involution, "
             "and g == g.enantiomer() must hold exactly for the achiral/meso members. The edit machine (profiles X3/X4) derives "
             "enantiomers from every state within the depth bound and follows up with edits on either side.",
        design_ref="DESIGN.md 6 (C06)", note=ISO_NOTE, technique=ISO_TECH + "; edit machine (MC_Edit) + Trace_Edit"),
    "C16": dict(category="model_checking",
        text="All enumerated pairs whose (element, neighbour elements) multisets differ - reactant-, product- or TS-wise for reaction "
             "graphs - and all pairs that TLC certifies to be the two stereoisomers of a single stereogenic unit with element-distinct "
             "ligands must have different hashes. A listed known finding (E/Z PlanarBond pairs) is reported as KNOWN-FINDING.",
        design_ref="DESIGN.md 6 (C16)", note=ISO_NOTE, technique=ISO_TECH),
    "C15": dict(category="model_checking",
        text="json_deserialize(json_serialize(g)) is a derivation of the edit machine: from every state within the depth bound of the "
             "seed graphs of all four classes (all roles incl. fleeting, every menu descriptor, parity None, placeholders, every "
             "change combination, ids negative and > 2^33) the result must project to the same graph (attributes may be dropped), "
             "have the same class, compare equal and have the same hash; random graphs of 10-30 atoms are validated by TLC.",
        design_ref="DESIGN.md 6 (C15)", note=EDIT_NOTE, technique=EDIT_TECH),
    "C08": dict(category="model_checking",
        text="MC_React enumerates (reactant, product, optional TS) triples (3 variable bonds x 5 states, centre descriptor chosen "
             "independently in r/ts/p from 7 choices incl. class changes and placeholders; ethene bond x 6 bond descriptors); each is "
             "run through from_graphs, reactant, product, reverse_reaction (twice) as stereo and plain reaction graph and Obs_React "
             "(TLC) evaluates the contract clause by clause. reactant/product/reverse are also derivations of the edit machine.",
        design_ref="DESIGN.md 3.4, 6 (C08)", note=TRUST + "contract of from_graphs stated on observable behaviour (spec/Obs_React.tla).",
        technique="TLC-enumerated reaction triples replayed on the real classes; recorded results validated by TLC against the contract "
                  "(Obs_React); edit machine + Trace_Edit for reactant/product/reverse"),
})

RD_NOTE = TRUST + ("RDKit (SMILES parser/writer, RenumberAtoms, stereoisomer enumeration, canonical SMILES, ETKDG/MMFF, "
                   "AssignStereochemistryFrom3D, kekulisation) is a trusted, unmodelled environment component; refusals and embedding "
                   "failures are skipped and counted.")
CHECKS.update({
    "C07": dict(category="exploration",
        text="Finite part exhaustive in thorough mode: MC_Geom enumerates every placement of identifiers on the idealised "
             "tetrahedral, square-planar, trigonal-bipyramidal and octahedral figures x the 24 lattice rotations x reflection, with the "
             "handedness convention derived from the class docstrings and every spelling of the expected descriptor; each case is "
             "realised with per-element bond lengths, noise, a random rigid motion and a shuffled hand-over order and goes through "
             "atom_stereo_from_coords and StereoMolGraph.from_geometry. Metamorphic part: the XYZ corpus, distorted four- and six-coordinate "
             "centres (see-saw, umbrella, trigonal prism, random), alkene templates with equal and unequal angles, and reaction triples under "
             "rigid motion / atom permutation / reflection, decided by TLC (Obs_Meta) with the known atom correspondence as witness. "
             "Exploration, not model checking: the continuous part (noise, thresholds) is sampled.",
        design_ref="DESIGN.md 3.4, 6 (C07)", note=TRUST + "geometries on a bonding or planarity threshold are filtered out by the "
             "harness before the code is called (DESIGN 5 rule 5) and counted as skipped.",
        technique="TLC-enumerated lattice figures (MC_Geom) replayed through the real perception; recorded metamorphic pairs validated by TLC (Obs_Meta)"),
    "C20": dict(category="exploration",
        text="Text half: MC_Xyz enumerates boundary documents (1-4 atoms, runs over all 118 symbols, coordinate values at zero, "
             "negative zero, the last printed digit, rounding ties, carries, magnitude 1e6, ten comment lines); xyz_str -> from_xyz / "
             "from_xyz_file and Obs_Xyz (TLC) decides every record on exact <sign,int,fraction> triples. Connectivity half: MC_Conn "
             "enumerates lattice geometries (2-5 atoms, 6 elements) with the bond set computed in exact integer arithmetic from "
             "d < 1.2(r_i+r_j); BondsFromDistance and MolGraph.from_geometry must agree, also after lattice rotations, translation, "
             "permutation and a random real rotation.",
        design_ref="DESIGN.md 3.4, 6 (C20)", note=TRUST + "covalent radii of the elements used are transcribed into MC_Conn from "
             "Pyykko & Atsumi; the text half is encode/decode fidelity, for which the spec contributes the document model and the "
             "boundary enumeration.",
        technique="TLC-enumerated XYZ documents and lattice geometries replayed on the real code; round-trip records validated by TLC (Obs_Xyz)"),
    "C12": dict(category="exploration",
        text="Labels: for a centre with pairwise distinct monoatomic ligands every permutation label (@/@@, @SP1-3, @TB1-20, @OH1-30) "
             "in several random spellings and renumberings is imported by atom-map number; Obs_Descr (TLC) decides for every pair of "
             "imports whether the centre descriptors denote the same arrangement: same label <=> same arrangement, and the "
             "library's == / hash must agree. Corpus: about 120 organic molecules (small rings, bridgehead alkenes, cyclic and acyclic delocalised ions) x stereoisomers x respelling / renumbering / option "
             "combinations; Obs_IsoPair (TLC, complete search) decides whether two imports are isomorphic; distinct stereoisomers "
             "must import non-isomorphic; the atom-map import must be the index import renamed (Obs_Meta, literal).",
        design_ref="DESIGN.md 6 (C12)", note=RD_NOTE,
        technique="recorded imports validated by TLC against SMGStereo!DEq / SMGIso (Obs_Descr, Obs_IsoPair, Obs_Meta)"),
    "C13": dict(category="exploration",
        text="TLC enumerates every placement of distinct ligands x both parities for the four atom-centred classes and a lone-pair "
             "tetrahedral centre (all stereoisomer classes in every spelling) plus templates; each graph is built with arbitrary "
             "shuffled identifiers, exported with _to_rdmol and re-imported by atom-map number; Obs_Meta (TLC) checks atoms, elements, "
             "bonds and every atom-centred descriptor up to symmetry with the identity as witness, and that the export left the graph "
             "untouched. Imported corpus molecules are exported with regenerated bond orders and the E/Z descriptors of isolated "
             "double bonds are compared as well.",
        design_ref="DESIGN.md 6 (C13)", note=RD_NOTE,
        technique="TLC-enumerated stereo graphs exported/imported through RDKit; recorded results validated by TLC (Obs_Meta)"),
    "C14": dict(category="exploration",
        text="Complexes: MC_Geom figure cases are realised as coordinates, an RDKit molecule with shuffled atom/bond order is built on "
             "them, RDKit assigns the permutation label from 3D, the label is imported and the same coordinates are perceived; both "
             "descriptors must be a spelling of the expected descriptor printed by TLC (all four classes). Organic: corpus x "
             "stereoisomers x embedding seeds, import vs perception with non-double-bond PlanarBond descriptors removed, decided by "
             "Obs_IsoPair (TLC, complete search). Two listed known findings (lone-pair units are not perceived from 3D).",
        design_ref="DESIGN.md 6 (C14)", note=RD_NOTE,
        technique="TLC-enumerated figures realised in RDKit and in the perception code; recorded graph pairs validated by TLC (Obs_IsoPair)"),
    "C18": dict(category="exploration",
        text="Structural part: MC_BondOrd enumerates every symmetric 0/1 matrix on 2-4 atoms (5 sampled) x element lists incl. "
             "chemically impossible ones; Obs_BondOrd (TLC) checks symmetry, integrality and bo>=1 exactly on bonded pairs. Chemical "
             "part, by construction: MC_Lewis builds EVERY neutral closed-shell molecule with <= 3 heavy atoms of C N O S P F (4 heavy "
             "atoms, chains and rings up to 6: sampled / restricted element sets) as a Lewis structure in standard valences, forgets "
             "the bond orders and lists the atoms in four orders; plus corpus molecules certified by RDKit's kekulised structure, several atom orders, through connectivity2bond_orders "
             "and through to_rdmol(generate_bond_orders=True) with shuffled non-contiguous identifiers; Obs_BondOrd checks standard "
             "valences, no charges, no unpaired electrons.",
        design_ref="DESIGN.md 6 (C18)", note=RD_NOTE,
        technique="TLC-enumerated connectivity inputs and TLC-constructed Lewis structures (MC_BondOrd, MC_Lewis); recorded outputs validated by TLC (Obs_BondOrd)"),
})

PENDING_REASON = "check not built yet in this round; planned with the TLA+ technique as described in DESIGN.md section 6"


def main():
    checks = []
    for pid in PROPS:
        if pid not in CHECKS:
            continue
        c = CHECKS[pid]
        checks.append({
            "property_id": pid,
            "quick_cmd": f"./check {pid} quick",
            "thorough_cmd": f"./check {pid} thorough",
            "evidence_file": f"/verif/evidence/{pid}.json",
            "replay_cmd_template": "./check replay {path}",
            "engine": "tlc+replay",
            "level_claimed": {"category": c["category"], "text": c["text"], "design_ref": c["design_ref"]},
            "level_note": c["note"],
            "technique": c["technique"],
        })
    na = [{"property_id": p, "reason": PENDING_REASON} for p in PROPS if p not in CHECKS]
    m = {
        "version": 1,
        "setup_cmd": "./check setup",
        "hooks": {
            "guard": "STEREOMOLGRAPH_VERIF",
            "enable": "./check exports STEREOMOLGRAPH_VERIF=1; the one hook (commit 80a347d, algorithms/isomorphism.py) is a module-level callable _verif_tracer that is None unless harness/vf2trace.py installs a recorder: it reports every step of the VF2++ while loop (init / pop / try with outcome yield|push|reject) with the search state, for replay against spec/VF2.tla. All other checks observe only the public API of the working tree (imported through /venv's editable install of /repo/src, or $VERIF_REPO/src).",
            "baseline_off_cmd": "cd /repo && /venv/bin/python -m pytest -ra -q -p no:cacheprovider --timeout=900 --continue-on-collection-errors",
            "source_commits": ["80a347d"],
            "add_only": True,
        },
        "engines": [{
            "name": "tlc+replay",
            "path": "/verif/check",
            "serves_properties": [c["property_id"] for c in checks],
            "kind_free_text": "explicit TLA+ specification in /verif/spec checked with TLC; conformance in both directions (TLC-generated cases/transitions replayed on the real classes; recorded executions validated by TLC)",
        }],
        "checks": checks,
        "notes": "See DESIGN.md. Genuine defects repaired by 'fix:' commits in /repo are listed in known_findings.json under 'fixed'.",
        "not_applicable": na,
    }
    (VERIF / "MANIFEST.json").write_text(json.dumps(m, indent=1) + "\n")
    try:
        import jsonschema
        jsonschema.validate(m, json.loads(Path("/root/.vp/MANIFEST.schema.json").read_text()))
        print("MANIFEST.json valid;", len(checks), "checks,", len(na), "not_applicable")
    except ImportError:
        print("jsonschema missing; not validated")


if __name__ == "__main__":
    main()
