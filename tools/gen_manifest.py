#!/venv/bin/python
"""Regenerates MANIFEST.json from the table below (single place to edit)."""
import json
import sys
from pathlib import Path

VERIF = Path(__file__).resolve().parent.parent
PROPS = [json.loads(l)["id"] for l in (VERIF / "properties.jsonl").read_text().splitlines() if l.strip()]

TRUST = ("TLC 1.8 evaluates the TLA+ modules in /verif/spec correctly; the Python harness only drives the public API, "
         "projects public views and compares JSON; ")

CHECKS = {
    "C04": dict(
        category="model_checking",
        text="The case space is finite and TLC enumerates it completely (every arrangement of ids on the positions of each of the "
             "six figures x parities x placeholder patterns, 25k cases) with a canonical class key derived from figure geometry; "
             "every case is constructed as a real descriptor and ==/hash/invert are compared with the keys on ~1M (quick) / all "
             "(thorough) ordered pairs; the public permutation tables are additionally checked by TLC against the derived groups.",
        design_ref="DESIGN.md 3.1, 6 (C04)",
        note=TRUST + "the idealised integer figures in SMGStereo.tla are the definition of 'same spatial arrangement'.",
        technique="TLA+ spec (figure geometry -> symmetry groups) model-checked by TLC; TLC-enumerated cases replayed on the real descriptor classes; table dump validated by TLC",
    ),
}

EDIT_NOTE = TRUST + ("spec/SMGEdit.tla (Outcomes) is the reference meaning of every public operation; behaviour no property pins is an "
                     "explicit set of allowed outcomes (DESIGN appendix A); universes are bounded (3-4 ids, 2 elements, fixed descriptor menu) "
                     "for the exhaustive direction, 10-30 ids / all elements / all classes for the recorded direction.")
EDIT_TECH = ("TLA+ state machine of all public operations (MC_Edit) explored by TLC, every generated transition replayed on real objects "
             "with full-view projection; random real histories recorded and validated step by step by TLC (Trace_Edit)")
CHECKS.update({
    "C09": dict(category="model_checking",
        text="TLC explores the bounded state graph of the edit machine for all four classes (profiles E1-E4: every mutator, query and "
             "ill-formed request at every reachable state up to the depth bound) and every transition is executed on a real object reached "
             "through a genuine history; after each step all public views are projected, checked against each other and against the spec "
             "post-state. In the other direction seeded random histories (10-30 ids, all elements, all descriptor classes) are logged call "
             "by call and each record is validated by TLC against the same Outcomes operator.",
        design_ref="DESIGN.md 3.3, 4, 6 (C09)", note=EDIT_NOTE, technique=EDIT_TECH),
    "C19": dict(category="model_checking",
        text="Same state graphs as C09: at every reachable state every rejected-request action (unknown atom/bond, self bond, bad element, "
             "wrong reaction label, several/no centres, descriptor on unknown centre, delete atom_type) and every lookup about absent atoms "
             "or bonds is fired; the spec demands an exception (any type) resp. raise-or-negative answer and an identical full projection. "
             "Random histories inject ill-formed requests and are validated by TLC.",
        design_ref="DESIGN.md 3.3, 6 (C19)", note=EDIT_NOTE, technique=EDIT_TECH + "; fault enumeration at every reachable state"),
    "C10": dict(category="model_checking",
        text="Two-slot machine: from every seed graph (all small MG/CRG graphs over 2-3 ids; star/chain skeletons with descriptors and "
             "stereo changes) every derivation (copy, copy-constructor into each class, relabel copy, subgraph, compose, enantiomer, "
             "reverse, reactant/product, JSON) is followed by every follow-up mutator on either side; TLC gives the expected state of both "
             "slots and the untouched side must keep its projection. Random histories keep a pool of live objects and snapshot all of them "
             "around every call.",
        design_ref="DESIGN.md 3.3, 6 (C10)", note=EDIT_NOTE, technique=EDIT_TECH),
    "C11": dict(category="model_checking",
        text="Every injective partial renaming over the universe plus a fresh id (keys that are not atoms included) is applied in place and "
             "into a copy from every seed state; results must equal Relabel(g,m) of the spec, the source of a copy must not move, and the "
             "walk continues with follow-up queries, edits, == and hash on the relabelled graph. Random total/partial renamings on 10-30 "
             "atom graphs are validated by TLC.",
        design_ref="DESIGN.md 6 (C11)", note=EDIT_NOTE, technique=EDIT_TECH),
    "C17": dict(category="model_checking",
        text="For every seed graph of all four classes: subgraph for subsets given as list, set, tuple and one-shot iterator; "
             "connected_components against the spec's reachability-based Components; compose of component subgraphs; compose of overlapping "
             "pieces in both orders (later wins) and one further edit on the result; all compared with Subgraph/Compose of the spec. "
             "Random covers on larger graphs validated by TLC.",
        design_ref="DESIGN.md 6 (C17)", note=EDIT_NOTE, technique=EDIT_TECH),
})

ISO_NOTE = TRUST + ("spec/SMGIso.tla (Isos = every structure-preserving bijection by exhaustive extension, DEq for descriptors) is the "
                    "oracle; MC_IsoPairs checks reflexivity / symmetry / Sig-invariance of the oracle on every pair; families are bounded "
                    "(graphs on <= 4 ids x {H,C}, reaction graphs on <= 3 ids, stereo templates up to 8 atoms); the two members of a pair "
                    "get disjoint identifier sets and different insertion orders.")
ISO_TECH = ("TLA+ brute-force isomorphism oracle (SMGIso) evaluated by TLC on enumerated case families (MC_IsoPairs); every pair replayed "
            "on the real classes")
CHECKS.update({
    "C01": dict(category="model_checking",
        text="For every pair for which TLC's exhaustive search finds a structure-preserving bijection (each family member against "
             "itself under renaming to a disjoint id set, another insertion order and re-expressed descriptors, static or inside "
             "stereo changes, with placeholders) ==, the reversed comparison and is_isomorphic must be True; includes empty graphs, "
             "isolated atoms and disconnected graphs (all graphs on <= 4 ids). The edit-machine replay additionally compares every two "
             "real objects that reach the same abstract state by different histories.",
        design_ref="DESIGN.md 3.4, 6 (C01)", note=ISO_NOTE, technique=ISO_TECH),
    "C02": dict(category="model_checking",
        text="For every enumerated pair for which TLC's exhaustive search over all atom bijections finds NO witness (all pairs with "
             "equal cheap invariants plus a sample of the rest: element / bond / role differences, enantiomers, diastereomers, E/Z, "
             "lone-pair centres, formed-vs-broken) the real == must be False in both directions; all 12 ordered pairs of distinct "
             "classes on identical content (empty and non-empty) must be unequal.",
        design_ref="DESIGN.md 6 (C02)", note=ISO_NOTE, technique=ISO_TECH),
    "C03": dict(category="model_checking",
        text="Every pair TLC proves isomorphic must have equal hashes (renaming, insertion order, symmetry-equivalent orderings, "
             "(ordering, parity) vs (mirrored ordering, -parity)); a sample of non-empty graphs of all four classes is hashed in fresh "
             "interpreters under several PYTHONHASHSEED values and compared.",
        design_ref="DESIGN.md 6 (C03)", note=ISO_NOTE, technique=ISO_TECH + "; subprocess hashing under different PYTHONHASHSEED"),
    "C05": dict(category="model_checking",
        text="For every enumerated pair of non-reaction families the list yielded by vf2pp_all_isomorphisms(stereo as the class "
             "demands) is compared as a set with TLC's complete set of bijections (translated through the two identifier maps): no "
             "invalid, missing or duplicate mapping; self pairs give the automorphism group.",
        design_ref="DESIGN.md 6 (C05)", note=ISO_NOTE, technique=ISO_TECH),
    "C06": dict(category="model_checking",
        text="For every stereo family member TLC gives Enantiomer(g) and whether a bijection onto it exists; enantiomer() must project "
             "to it key by key (atom, bond/axis, inside atom and bond stereo changes), leave the source untouched, be an involution, "
             "and g == g.enantiomer() must hold exactly for the achiral/meso members. The edit machine (profiles X3/X4) derives "
             "enantiomers from every state within the depth bound and follows up with edits on either side.",
        design_ref="DESIGN.md 6 (C06)", note=ISO_NOTE, technique=ISO_TECH + "; edit machine (MC_Edit) + Trace_Edit"),
    "C16": dict(category="model_checking",
        text="All enumerated pairs whose (element, neighbour elements) multisets differ - reactant-, product- or TS-wise for reaction "
             "graphs - and all pairs that TLC certifies to be the two stereoisomers of a single stereogenic unit with element-distinct "
             "ligands must have different hashes. A listed known finding (E/Z PlanarBond pairs) is reported as KNOWN-FINDING.",
        design_ref="DESIGN.md 6 (C16)", note=ISO_NOTE, technique=ISO_TECH),
    "C15": dict(category="model_checking",
        text="json_deserialize(json_serialize(g)) is a derivation of the edit machine: from every state within the depth bound of the "
             "seed graphs of all four classes (all roles incl. fleeting, every menu descriptor, parity None, placeholders, every "
             "change combination, ids negative and > 2^33) the result must project to the same graph (attributes may be dropped), "
             "have the same class, compare equal and have the same hash; random graphs of 10-30 atoms are validated by TLC.",
        design_ref="DESIGN.md 6 (C15)", note=EDIT_NOTE, technique=EDIT_TECH),
    "C08": dict(category="model_checking",
        text="MC_React enumerates (reactant, product, optional TS) triples (3 variable bonds x 5 states, centre descriptor chosen "
             "independently in r/ts/p from 7 choices incl. class changes and placeholders; ethene bond x 6 bond descriptors); each is "
             "run through from_graphs, reactant, product, reverse_reaction (twice) as stereo and plain reaction graph and Obs_React "
             "(TLC) evaluates the contract clause by clause. reactant/product/reverse are also derivations of the edit machine.",
        design_ref="DESIGN.md 3.4, 6 (C08)", note=TRUST + "contract of from_graphs stated on observable behaviour (spec/Obs_React.tla).",
        technique="TLC-enumerated reaction triples replayed on the real classes; recorded results validated by TLC against the contract "
                  "(Obs_React); edit machine + Trace_Edit for reactant/product/reverse"),
})

PENDING_REASON = "check not built yet in this round; planned with the TLA+ technique as described in DESIGN.md section 6"


def main():
    checks = []
    for pid in PROPS:
        if pid not in CHECKS:
            continue
        c = CHECKS[pid]
        checks.append({
            "property_id": pid,
            "quick_cmd": f"./check {pid} quick",
            "thorough_cmd": f"./check {pid} thorough",
            "evidence_file": f"/verif/evidence/{pid}.json",
            "replay_cmd_template": "./check replay {path}",
            "engine": "tlc+replay",
            "level_claimed": {"category": c["category"], "text": c["text"], "design_ref": c["design_ref"]},
            "level_note": c["note"],
            "technique": c["technique"],
        })
    na = [{"property_id": p, "reason": PENDING_REASON} for p in PROPS if p not in CHECKS]
    m = {
        "version": 1,
        "setup_cmd": "./check setup",
        "hooks": {
            "guard": "STEREOMOLGRAPH_VERIF",
            "enable": "no hooks inside /repo: checks import the working tree through /venv (editable install of /repo/src) and observe only the public API; the guard name is reserved and exported by ./check",
            "baseline_off_cmd": "cd /repo && /venv/bin/python -m pytest -ra -q -p no:cacheprovider --timeout=900 --continue-on-collection-errors",
            "source_commits": [],
            "add_only": True,
        },
        "engines": [{
            "name": "tlc+replay",
            "path": "/verif/check",
            "serves_properties": [c["property_id"] for c in checks],
            "kind_free_text": "explicit TLA+ specification in /verif/spec checked with TLC; conformance in both directions (TLC-generated cases/transitions replayed on the real classes; recorded executions validated by TLC)",
        }],
        "checks": checks,
        "notes": "See DESIGN.md. Genuine defects repaired by 'fix:' commits in /repo are listed in known_findings.json under 'fixed'.",
        "not_applicable": na,
    }
    (VERIF / "MANIFEST.json").write_text(json.dumps(m, indent=1) + "\n")
    try:
        import jsonschema
        jsonschema.validate(m, json.loads(Path("/root/.vp/MANIFEST.schema.json").read_text()))
        print("MANIFEST.json valid;", len(checks), "checks,", len(na), "not_applicable")
    except ImportError:
        print("jsonschema missing; not validated")


if __name__ == "__main__":
    main()
