#!/venv/bin/python
"""Regenerates MANIFEST.json from the table below (single place to edit)."""
import json
import sys
from pathlib import Path

VERIF = Path(__file__).resolve().parent.parent
PROPS = [json.loads(l)["id"] for l in (VERIF / "properties.jsonl").read_text().splitlines() if l.strip()]

TRUST = ("TLC 1.8 evaluates the TLA+ modules in /verif/spec correctly; the Python harness only drives the public API, "
         "projects public views and compares JSON; ")

CHECKS = {
    "C04": dict(
        category="model_checking",
        text="The case space is finite and TLC enumerates it completely (every arrangement of ids on the positions of each of the "
             "six figures x parities x placeholder patterns, 25k cases) with a canonical class key derived from figure geometry; "
             "every case is constructed as a real descriptor and ==/hash/invert are compared with the keys on ~1M (quick) / all "
             "(thorough) ordered pairs; the public permutation tables are additionally checked by TLC against the derived groups.",
        design_ref="DESIGN.md 3.1, 6 (C04)",
        note=TRUST + "the idealised integer figures in SMGStereo.tla are the definition of 'same spatial arrangement'.",
        technique="TLA+ spec (figure geometry -> symmetry groups) model-checked by TLC; TLC-enumerated cases replayed on the real descriptor classes; table dump validated by TLC",
    ),
}

PENDING_REASON = "check not built yet in this round; planned with the TLA+ technique as described in DESIGN.md section 6"


def main():
    checks = []
    for pid in PROPS:
        if pid not in CHECKS:
            continue
        c = CHECKS[pid]
        checks.append({
            "property_id": pid,
            "quick_cmd": f"./check {pid} quick",
            "thorough_cmd": f"./check {pid} thorough",
            "evidence_file": f"/verif/evidence/{pid}.json",
            "replay_cmd_template": "./check replay {path}",
            "engine": "tlc+replay",
            "level_claimed": {"category": c["category"], "text": c["text"], "design_ref": c["design_ref"]},
            "level_note": c["note"],
            "technique": c["technique"],
        })
    na = [{"property_id": p, "reason": PENDING_REASON} for p in PROPS if p not in CHECKS]
    m = {
        "version": 1,
        "setup_cmd": "./check setup",
        "hooks": {
            "guard": "STEREOMOLGRAPH_VERIF",
            "enable": "no hooks inside /repo: checks import the working tree through /venv (editable install of /repo/src) and observe only the public API; the guard name is reserved and exported by ./check",
            "baseline_off_cmd": "cd /repo && /venv/bin/python -m pytest -ra -q -p no:cacheprovider --timeout=900 --continue-on-collection-errors",
            "source_commits": [],
            "add_only": True,
        },
        "engines": [{
            "name": "tlc+replay",
            "path": "/verif/check",
            "serves_properties": [c["property_id"] for c in checks],
            "kind_free_text": "explicit TLA+ specification in /verif/spec checked with TLC; conformance in both directions (TLC-generated cases/transitions replayed on the real classes; recorded executions validated by TLC)",
        }],
        "checks": checks,
        "notes": "See DESIGN.md. Genuine defects repaired by 'fix:' commits in /repo are listed in known_findings.json under 'fixed'.",
        "not_applicable": na,
    }
    (VERIF / "MANIFEST.json").write_text(json.dumps(m, indent=1) + "\n")
    try:
        import jsonschema
        jsonschema.validate(m, json.loads(Path("/root/.vp/MANIFEST.schema.json").read_text()))
        print("MANIFEST.json valid;", len(checks), "checks,", len(na), "not_applicable")
    except ImportError:
        print("jsonschema missing; not validated")


if __name__ == "__main__":
    main()
