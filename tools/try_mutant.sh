#!/bin/bash
# usage: tools/try_mutant.sh <worktree-dir> <seed-name> <check ids...>
# 1. confirm in a FRESH scratch worktree: patch applies, tests pass, demo exits 1 with / 0 without
# 2. apply to /repo, run the given checks (quick), revert
set -u
WT=$1; NAME=$2; shift 2
DEST=/verif/seeded/$NAME
mkdir -p $DEST
cp $WT/MUTANT/patch.diff $WT/MUTANT/demo.py $DEST/ 2>/dev/null
cp $WT/MUTANT/meta.json $DEST/agent_meta.json 2>/dev/null
SCR=$(mktemp -d /tmp/scr-XXXX)
git -C /repo worktree add -q $SCR/wt HEAD
cd $SCR/wt
PYTHONPATH=$SCR/wt/src /venv/bin/python $DEST/demo.py >/dev/null 2>&1; D0=$?
git apply $DEST/patch.diff; AP=$?
PYTHONPATH=$SCR/wt/src /venv/bin/python $DEST/demo.py > $SCR/demo.out 2>&1; D1=$?
PYTHONPATH=$SCR/wt/src timeout 900 /venv/bin/python -m pytest -q -p no:cacheprovider --timeout=900 tests 2>&1 | tail -1 > $SCR/tests.out
TESTS=$(cat $SCR/tests.out)
cd /verif
git -C /repo worktree remove --force $SCR/wt; rm -rf $SCR
echo "apply=$AP demo_without=$D0 demo_with=$D1 tests: $TESTS"
if [ $AP -ne 0 ] || [ $D0 -ne 0 ] || [ $D1 -ne 1 ]; then echo "NOT CONFIRMED"; exit 3; fi
case "$TESTS" in *"264 passed"*) ;; *) echo "TESTS NOT PASSING"; exit 3;; esac
git -C /repo apply $DEST/patch.diff || exit 4
RES=""
for c in "$@"; do
  OUT=$(./check $c quick 2>&1 | grep -v -i warn)
  RC=$?
  NV=$(echo "$OUT" | grep -c "^VIOLATION")
  SIG=$(echo "$OUT" | grep "signature:" | sed 's/.*signature: //' | sort -u | head -4 | tr '\n' ';')
  LAST=$(echo "$OUT" | tail -1)
  echo "  check $c: violations_lines=$NV  $LAST"
  echo "     $SIG"
  RES="$RES $c:$NV"
done
git -C /repo checkout -- .
git -C /repo status --short | head -3
echo "RESULT $NAME:$RES"
