import json, time, sys
from harness import edit
from collections import Counter
t0=time.time()
r = edit.run_profile((sys.argv[2], sys.argv[1], 0, 8))
if "error" in r: print(r["error"][-3000:]); sys.exit()
fails = r.pop("fails")
print(r["name"], {k:v for k,v in r.items() if k in ("states","generated","transitions_replayed","skipped","initial","reps","eqhash")}, "wall %.1f"%r["wall"], "fails", len(fails))
allf = Counter((tuple(f["props"]), f["sig"]) for f in fails)
for k,v in sorted(allf.items()): print(v, k)
