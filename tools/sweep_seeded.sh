#!/bin/bash
# Regression sweep over the seeded changes: every seeded/<name>/patch.diff is applied to a private
# scratch worktree of /repo (never to /repo itself) and the quick checks named in its meta.json
# ("caught_by") are run from a private copy of /verif against that worktree.
# usage: tools/sweep_seeded.sh [-j N] [name ...]      (default: all, 4 at a time)
# output: one line per seeded change: "<name> <check>:<violations> ... CAUGHT|MISSED|OBSOLETE|NOAPPLY"
set -u
J=4
if [ "${1:-}" = "-j" ]; then J=$2; shift 2; fi
VERIF=$(cd "$(dirname "$0")/.." && pwd)
NAMES="$*"
[ -z "$NAMES" ] && NAMES=$(ls "$VERIF/seeded")
one() {
  n=$1; VERIF=$2
  meta="$VERIF/seeded/$n/meta.json"
  status=$(python3 -c "import json,sys;print(json.load(open('$meta')).get('status',''))")
  checks=$(python3 -c "import json,sys;print(' '.join(json.load(open('$meta')).get('caught_by') or []))")
  scr=$(mktemp -d /tmp/sweep-XXXXXX)
  git -C /repo worktree add -q --detach "$scr/wt" HEAD >/dev/null 2>&1
  if ! git -C "$scr/wt" apply "$VERIF/seeded/$n/patch.diff" 2>/dev/null; then
    echo "$n NOAPPLY"; git -C /repo worktree remove --force "$scr/wt"; rm -rf "$scr"; return
  fi
  rsync -a --exclude .git --exclude replays --exclude evidence "$VERIF/" "$scr/verif/"
  res=""; caught=0
  for c in $checks; do
    out=$(cd "$scr/verif" && VERIF_REPO="$scr/wt" timeout 2400 ./check "$c" quick 2>&1); rc=$?
    nv=$(echo "$out" | grep -c "^VIOLATION")
    res="$res $c:rc=$rc,v=$nv"
    [ "$rc" = "1" ] && [ "$nv" -gt 0 ] && caught=1
  done
  git -C /repo worktree remove --force "$scr/wt"; rm -rf "$scr"
  if [ "$status" = "obsolete" ]; then echo "$n$res OBSOLETE"
  elif [ "$caught" = "1" ]; then echo "$n$res CAUGHT"
  else echo "$n$res MISSED"; fi
}
export -f one
printf '%s\n' $NAMES | xargs -P "$J" -I{} bash -c 'one {} '"$VERIF"
