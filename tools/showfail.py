import json, sys, os
os.environ.setdefault("VERIF_VERBOSE","")
from harness import edit
name, tier, pat = sys.argv[1], sys.argv[2], sys.argv[3]
r = edit.run_profile((name, tier, 0, 8))
n=0
for f in r["fails"]:
    if pat in f["sig"] and f["detail"]:
        d=f["detail"]
        print(f["props"], f["sig"])
        for k in ("pre","op","observed_out","why_not","history","state","hist1","hist2","traceback"):
            if k in d: print("  ",k, json.dumps(d[k])[:700])
        if "observed_proj" in d: print("   obs", json.dumps(d["observed_proj"])[:900])
        n+=1
        if n>=int(sys.argv[4]) if len(sys.argv)>4 else n>=2: break
