import json, time, sys, os
os.environ['VERIF_VERBOSE']='1'
from harness import edit
from collections import Counter
names = sys.argv[2:] or list(edit.PROFILES)
t0=time.time()
rs = edit.run_profiles(names, sys.argv[1], parallel=4)
allf = Counter()
for r in rs:
    if "error" in r:
        print(r["name"], "ERROR", r["error"][-1500:]); continue
    fails = r.pop("fails")
    print(r["name"], "TRUNC" if r["truncated"] else "", {k:v for k,v in r.items() if k in ("states","generated","transitions_replayed","skipped","initial","reps","eqhash")}, "wall %.1f"%r["wall"], "fails", len(fails))
    for f in fails:
        allf[(tuple(f["props"]), f["sig"])]+=1
print("total wall", time.time()-t0)
for k,v in sorted(allf.items()): print(v, k)
