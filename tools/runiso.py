import sys, os, json, time
os.environ["VERIF_VERBOSE"]="1"
from harness import iso
from collections import Counter
tier=sys.argv[1]; fams=sys.argv[2:]
c=Counter()
for f in fams:
    t=time.time()
    r=iso.run_family((f,tier,0,("eq","hash","enum","mirror")))
    if "error" in r: print(f, "ERROR", r["error"][-1500:]); continue
    fl=r.pop("fails"); r.pop("samples")
    print(r, "t=%.1f"%(time.time()-t))
    for x in fl: c[(tuple(x["props"]), x["sig"])]+=1
for k,v in sorted(c.items()): print(v,k)
