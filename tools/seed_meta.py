#!/venv/bin/python
"""writes seeded/<name>/meta.json from the agent's meta and my trial results"""
import json, sys, os
name, prop, caught_by, first, notes = sys.argv[1:6]
d = f"/verif/seeded/{name}"
am = {}
try:
    am = json.load(open(f"{d}/agent_meta.json"))
except Exception:
    pass
meta = {"property": prop, "summary": am.get("summary", ""), "needs_to_manifest": am.get("needs", ""),
        "files": am.get("files", []),
        "confirmed": {"how": "tools/try_mutant.sh: fresh scratch worktree of /repo HEAD; patch applies; demo.py exits 0 without and 1 with the "
                             "patch; full test suite 264 passed with the patch",
                      "ran": f"git -C /repo apply seeded/{name}/patch.diff && ./check <id> quick && git -C /repo checkout -- ."},
        "caught_by": caught_by.split(","), "caught_at_first_attempt": first == "yes", "notes": notes}
json.dump(meta, open(f"{d}/meta.json", "w"), indent=1)
print("wrote", d)
