"""C14 - stereo from RDKit annotations agrees with stereo from 3D coordinates.

complexes: MC_Geom figure cases (placement x lattice rotation x reflection) are realised as coordinates;
   an RDKit molecule is built on them (shuffled atom and bond order), RDKit assigns the chirality label
   from 3D, the label is imported, and the same coordinates are perceived by from_geometry; both centre
   descriptors must be a spelling of the expected descriptor printed by TLC.
organic: corpus x stereoisomers x embedding seeds: import from annotations vs perception of the embedded
   conformer, planar-bond descriptors on bonds that are not formal double bonds removed from both;
   Obs_IsoPair (TLC, complete search) decides whether the two graphs are isomorphic.
"""
from __future__ import annotations

import random

import numpy as np

from . import common, model, geom, drive, rdk, c07
from .common import Reporter
from .model import IdMap, project

CLASSES = {"Tetrahedral": ("C", [1, 9, 17, 35]), "SquarePlanar": ("Pt", [1, 9, 17, 35]),
           "TrigonalBipyramidal": ("P", [1, 9, 17, 35, 8]), "Octahedral": ("Co", [1, 9, 17, 35, 8, 7])}
MODS = {"quick": {"Tetrahedral": 8, "SquarePlanar": 8, "TrigonalBipyramidal": 40, "Octahedral": 300},
        "thorough": {"Tetrahedral": 1, "SquarePlanar": 1, "TrigonalBipyramidal": 4, "Octahedral": 30}}


def run(tier):
    rep = Reporter("C14", tier)
    model.init()
    from rdkit import Chem, RDLogger
    from rdkit.Chem import AllChem
    from rdkit.Geometry import Point3D
    RDLogger.DisableLog("rdApp.*")
    Chem.SetAllowNontetrahedralChirality(True)
    from stereomolgraph.coords import Geometry
    from stereomolgraph.periodic_table import SYMBOLS, PERIODIC_TABLE
    from stereomolgraph.rdmol2graph import RDMol2StereoMolGraph
    import stereomolgraph as smgmod
    SMG = smgmod.StereoMolGraph
    rnd = random.Random(common.seed() + 14)
    n_cases = n_ok = n_skip = 0
    states = gen = 0
    classes_seen = set()
    samples = []
    for cls, (centre_sym, lig_pool) in CLASSES.items():
        centre_el = PERIODIC_TABLE[centre_sym]
        cs, res = c07.cases(cls, MODS[tier][cls])
        states += res.distinct
        gen += res.generated
        for c in cs:
            ids = c["atoms"]
            coords_by_id = {i: np.array(p, dtype=float) for i, p in c["coords"]}
            spell = {(tuple(s[0]), s[1]) for s in c["spellings"]}
            lig_ids = [i for i in ids if i != 1]
            pool = lig_pool[:]
            rnd.shuffle(pool)
            els = {1: centre_el}
            for k, i in enumerate(sorted(lig_ids)):
                els[i] = pool[k]
            pts = geom.star_geometry(centre_el, [coords_by_id[i] - coords_by_id[1] for i in lig_ids], [els[i] for i in lig_ids], rnd, noise=0.01)
            pts = geom.rigid(pts, rnd)
            by_id = {1: pts[0]}
            for k, i in enumerate(lig_ids):
                by_id[i] = pts[k + 1]
            seq = [1] + lig_ids
            rnd.shuffle(seq)                       # atom order in the RDKit molecule / geometry
            index_of = {i: k for k, i in enumerate(seq)}
            arr = np.array([by_id[i] for i in seq])
            el_seq = [els[i] for i in seq]
            okg, why = geom.general_position(el_seq, arr)
            if not okg:
                n_skip += 1
                continue
            mol = Chem.RWMol()
            for e in el_seq:
                a = Chem.Atom(SYMBOLS[e])
                a.SetNoImplicit(True)
                mol.AddAtom(a)
            bond_order = lig_ids[:]
            rnd.shuffle(bond_order)
            for i in bond_order:
                mol.AddBond(index_of[1], index_of[i], Chem.BondType.SINGLE)
            conf = Chem.Conformer(len(seq))
            for k in range(len(seq)):
                conf.SetAtomPosition(k, Point3D(*map(float, arr[k])))
            mol.AddConformer(conf, assignId=True)
            m = mol.GetMol()
            try:
                m.UpdatePropertyCache(strict=False)
                Chem.AssignStereochemistryFrom3D(m)
            except Exception as e:
                n_skip += 1
                continue
            tag = m.GetAtomWithIdx(index_of[1]).GetChiralTag()
            if tag == Chem.ChiralType.CHI_UNSPECIFIED:
                n_skip += 1
                rep.note(f"RDKit assigned no chirality label for a {cls} arrangement: case skipped")
                continue
            n_cases += 1
            classes_seen.add((cls, min(spell)))
            idm = IdMap({i: index_of[i] for i in seq})
            det = {"case": {k: c[k] for k in ("cls", "atoms", "par", "mirror")}, "elements": el_seq, "coords": arr.tolist(),
                   "index_of": index_of, "rdkit_tag": str(tag),
                   "rdkit_perm": m.GetAtomWithIdx(index_of[1]).GetUnsignedProp("_chiralPermutation")
                   if m.GetAtomWithIdx(index_of[1]).HasProp("_chiralPermutation") else None}
            got = {}
            for how in ("import", "perceive"):
                try:
                    g = (RDMol2StereoMolGraph(stereo_complete=True)(m) if how == "import"
                         else SMG.from_geometry(Geometry(el_seq, arr)))
                    d = g.get_atom_stereo(index_of[1])
                    got[how] = None if d is None else (type(d).__name__, tuple(idm.b(a) for a in d.atoms), d.parity)
                except Exception as e:
                    got[how] = ("raise", type(e).__name__, 0)
            det["observed"] = {k: (list(map(str, v)) if v else None) for k, v in got.items()}
            fine = True
            for how, v in got.items():
                if v is None or v[0] != cls or (v[1], v[2]) not in spell:
                    fine = False
                    sym = "raises" if (v and v[0] == "raise") else ("none" if v is None else ("wrong-class" if v[0] != cls else "wrong-arrangement"))
                    rep.violation(f"C14|complex|{cls}|{how}|{sym}",
                                  f"{cls}: descriptor from {'RDKit label import' if how == 'import' else '3D perception'} "
                                  f"is not the arrangement of the figure ({sym})", det)
            n_ok += fine
            if len(samples) < 3 and n_cases % 29 == 1:
                samples.append(det)
    # ------------------------------ organic ------------------------------
    irecs = []
    stripped = []
    n_embed_fail = 0
    corpus = rdk.corpus()
    if tier == "quick":
        corpus = rdk.quick_subset(corpus, 3)
    seeds = [7] if tier == "quick" else [7, 11, 42]
    ident = drive.IDM
    for name, smi in corpus:
        m0 = rdk.with_hs_and_maps(smi)
        if m0 is None or m0.GetNumAtoms() > 30 or m0.GetNumAtoms() < 2:
            continue
        for iso in rdk.stereoisomers(m0, 2 if tier == "quick" else 8):
            for sd in seeds:
                mm = Chem.Mol(iso)
                try:
                    if AllChem.EmbedMolecule(mm, randomSeed=sd) != 0:
                        n_embed_fail += 1
                        continue
                    AllChem.MMFFOptimizeMolecule(mm, maxIters=200)
                except Exception:
                    n_embed_fail += 1
                    continue
                # the embedding must realise the annotated stereo (trusted RDKit check)
                chk = Chem.Mol(mm)
                Chem.AssignStereochemistryFrom3D(chk)
                if rdk.canon_nomap(chk) != rdk.canon_nomap(iso):
                    n_embed_fail += 1
                    continue
                els = [a.GetAtomicNum() for a in mm.GetAtoms()]
                xyz = np.array(mm.GetConformer().GetPositions(), dtype=float)
                okg, why = geom.general_position(els, xyz)
                if not okg:
                    n_skip += 1
                    continue
                try:
                    g_ann = RDMol2StereoMolGraph(stereo_complete=True, resonance=True)(mm)
                    g_3d = SMG.from_geometry(Geometry(els, xyz))
                except Exception as e:
                    rep.violation(f"C14|organic|{name}|raises:{type(e).__name__}", f"{name}: import or perception raised", {"smiles": smi})
                    continue
                double = {frozenset((b.GetBeginAtomIdx(), b.GetEndAtomIdx())) for b in mm.GetBonds()
                          if b.GetBondType() == Chem.BondType.DOUBLE and not b.GetIsAromatic()}
                for g in (g_ann, g_3d):
                    for b, d in list(g.bond_stereo.items()):
                        if type(d).__name__ == "PlanarBond" and frozenset(b) not in double:
                            g.delete_bond_stereo(b)
                pa, _ = project(g_ann, ident)
                p3, _ = project(g_3d, ident)
                try:
                    lib = (g_ann == g_3d)
                except Exception as e:
                    lib = f"raise:{type(e).__name__}"
                rid = len(irecs) + 1
                irecs.append({"id": rid, "g": drive.gjson(pa), "h": drive.gjson(p3), "same": True, "name": name,
                              "seed": sd, "smiles": Chem.MolToSmiles(Chem.RemoveHs(iso)), "lib_eq": lib})
                # the same pair without the descriptors that rest on a lone-pair placeholder (diagnosis only)
                def strip_lp(pj):
                    q = dict(drive.gjson(pj))
                    q["ast"] = [e for e in q["ast"] if model.NOATOM not in e[-1][1]]
                    q["bst"] = [e for e in q["bst"] if model.NOATOM not in e[-1][1]]
                    return q
                lp_classes = sorted({e[-1][0] for e in drive.gjson(pa)["ast"] + drive.gjson(pa)["bst"] if model.NOATOM in e[-1][1]})
                stripped.append({"id": rid, "g": strip_lp(pa), "h": strip_lp(p3), "same": True, "lp": lp_classes})
    ok_i, bad_i = rdk.validate("Obs_IsoPair", irecs, ("id", "g", "h", "same")) if irecs else (set(), {})
    need = [q for q in stripped if q["id"] in bad_i and q["lp"]]
    ok_s, bad_s = rdk.validate("Obs_IsoPair", need, ("id", "g", "h", "same")) if need else (set(), {})
    lp_of = {q["id"]: q["lp"] for q in need}
    for r in irecs:
        if r["id"] in bad_i and r["id"] in ok_s:
            # the only disagreement is a stereo unit that rests on a lone pair, which from_geometry does not perceive
            for cls in lp_of[r["id"]]:
                rep.violation(f"C14|organic|lone-pair-unit-not-perceived-from-3D|{cls}",
                              f"{r['name']} ({r['smiles']}): the {cls} descriptor with a lone-pair placeholder imported from the "
                              f"RDKit annotation has no counterpart in the graph perceived from coordinates", {"record": r})
            continue
        if r["id"] in bad_i:
            v = bad_i[r["id"]]
            what = "different connectivity" if not v["skeleton"] else "stereo disagrees"
            rep.violation(f"C14|organic|{r['name']}|{'connectivity' if not v['skeleton'] else 'stereo'}",
                          f"{r['name']} ({r['smiles']}): annotation import and 3D perception are not isomorphic: {what}",
                          {"record": r, "verdict": v})
        elif r["lib_eq"] is not True:
            rep.violation(f"C14|organic-lib-eq|{r['name']}", f"{r['name']}: the spec finds an isomorphism but the library == is {r['lib_eq']}",
                          {"record": r})
    cov = {
        "states": states, "transitions": gen,
        "evaluations": 2 * n_cases + len(irecs), "distinct_nontrivial": len(classes_seen) + len({r["smiles"] for r in irecs}),
        "rule": "complexes: MC_Geom cases with an RDKit-assigned label, both routes compared with TLC's spellings; organic: "
                "(molecule, stereoisomer, embedding) records decided by Obs_IsoPair; distinct_nontrivial = distinct expected "
                "complex descriptor classes + distinct organic stereoisomers",
        "complex_cases": n_cases, "complex_cases_both_routes_ok": n_ok, "organic_records": len(irecs), "organic_accepted": len(ok_i),
        "skipped": n_skip, "embedding_failures_or_mismatch": n_embed_fail,
        "samples": samples[:2] + ([{k: irecs[0][k] for k in ("name", "smiles", "seed")}] if irecs else []) or ["none"],
    }
    return rep.finish("exploration", cov, [
        "RDKit (AssignStereochemistryFrom3D, ETKDG embedding, MMFF, canonical SMILES) is a trusted environment component",
        "embeddings whose 3D-derived stereo differs from the annotation (RDKit's own check) are discarded",
        "geometries on a bonding / planarity threshold are filtered out beforehand",
    ])
