"""./check <property-id> quick|thorough   |   ./check replay <path>   |   ./check setup"""
from __future__ import annotations

import importlib
import json
import os
import sys
import traceback

from . import common

MODULES = {
    "C04": "c04",
    "C01": "c01",
    "C02": "c02",
    "C03": "c03",
    "C05": "c05",
    "C06": "c06",
    "C16": "c16",
    "C12": "c12",
    "C13": "c13",
    "C14": "c14",
    "C15": "c15",
    "C07": "c07",
    "C08": "c08",
    "C20": "c20",
    "C09": "c09",
    "C18": "c18",
    "C19": "c19",
    "C10": "c10",
    "C11": "c11",
    "C17": "c17",
}


def main(argv):
    if len(argv) < 2:
        print(__doc__)
        return 2
    cmd = argv[1]
    try:
        if cmd == "setup":
            from . import setup as s
            return s.main()
        if cmd == "replay":
            data = json.loads(open(argv[2]).read())
            mod = importlib.import_module("harness." + MODULES[data["property"]])
            if hasattr(mod, "replay"):
                return mod.replay(data)
            print(json.dumps(data, indent=1)[:4000])
            return 0
        prop = cmd.upper()
        tier = argv[2] if len(argv) > 2 else os.environ.get("VERIF_TIER", "quick")
        if prop not in MODULES:
            print(f"no check registered for {prop}")
            return 2
        mod = importlib.import_module("harness." + MODULES[prop])
        return mod.run(tier)
    except common.MachineryError as e:
        print("MACHINERY-ERROR:", e)
        return 2
    except Exception:
        traceback.print_exc()
        print("MACHINERY-ERROR: unexpected exception in the harness")
        return 2


if __name__ == "__main__":
    sys.exit(main(sys.argv))
