from . import edit
def run(tier): return edit.run("C17", tier)
