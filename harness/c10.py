from . import edit
def run(tier): return edit.run("C10", tier)
