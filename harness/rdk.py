"""RDKit-side helpers shared by C12 / C13 / C14 / C18 (RDKit is a trusted environment component)."""
from __future__ import annotations

import json
import os
import random
import shutil
import tempfile

from . import common
from .common import run_tlc, MachineryError


def corpus():
    out = []
    for line in open(common.VERIF / "corpus" / "smiles.txt"):
        line = line.strip()
        if not line or line.startswith("#"):
            continue
        name, smi = line.split("\t")
        out.append((name, smi))
    return out


def quick_subset(cs, step):
    """every molecule with a stereogenic double bond, and every step-th of the rest"""
    keep, k = [], 0
    for name, smi in cs:
        if "/" in smi or "\\" in smi or name.startswith("keep_"):
            keep.append((name, smi))
        else:
            if k % step == 0:
                keep.append((name, smi))
            k += 1
    return keep


def with_hs_and_maps(smi):
    """molecule with explicit hydrogens; atom map number = index + 1 on every atom."""
    from rdkit import Chem
    m = Chem.MolFromSmiles(smi)
    if m is None:
        return None
    m = Chem.AddHs(m)
    for a in m.GetAtoms():
        a.SetAtomMapNum(a.GetIdx() + 1)
    return m


def stereoisomers(m, limit=16):
    from rdkit.Chem.EnumerateStereoisomers import EnumerateStereoisomers, StereoEnumerationOptions
    from rdkit import Chem
    m0 = Chem.Mol(m)
    opts = StereoEnumerationOptions(onlyUnassigned=False, unique=True, maxIsomers=limit, tryEmbedding=False)
    try:
        return list(EnumerateStereoisomers(m0, options=opts))
    except Exception:
        return [m]


def canon_nomap(m):
    """RDKit's canonical isomeric SMILES without atom maps: identity of the stereoisomer (trusted)."""
    from rdkit import Chem
    m2 = Chem.Mol(m)
    for a in m2.GetAtoms():
        a.SetAtomMapNum(0)
    return Chem.MolToSmiles(Chem.RemoveHs(m2))


def respell(m, rnd):
    """another SMILES spelling of the same stereoisomer, re-parsed (atom maps keep the correspondence)."""
    from rdkit import Chem
    smi = Chem.MolToSmiles(m, doRandom=True, allHsExplicit=True)
    ps = Chem.SmilesParserParams()
    ps.removeHs = False
    m2 = Chem.MolFromSmiles(smi, ps)
    # RDKit's random SMILES writer occasionally flips E/Z on ring-closure bonds (all-Z cyclooctatetraene): the
    # re-parsed molecule must be the SAME stereoisomer according to RDKit's own canonical SMILES, else it is not used
    if m2 is not None and canon_nomap(m2) != canon_nomap(m):
        return None, smi
    return m2, smi


def renumber(m, rnd):
    from rdkit import Chem
    order = list(range(m.GetNumAtoms()))
    rnd.shuffle(order)
    return Chem.RenumberAtoms(m, order), order


def validate(module, records, keys, prefixes=("OK", "BAD"), timeout=3000, workers=16):
    d = tempfile.mkdtemp(prefix="smg-obs-")
    try:
        path = os.path.join(d, "obs.ndjson")
        with open(path, "w") as f:
            for r in records:
                f.write(json.dumps({k: r[k] for k in keys}, separators=(",", ":")) + "\n")
        res = run_tlc(module, cfg=module + ".cfg", env={"OBS_FILE": path}, workers=workers, prefixes=prefixes,
                      timeout=timeout, heap="12g")
    finally:
        shutil.rmtree(d, ignore_errors=True)
    common.tlc_ok(res, module)
    ok, bad = set(), {}
    for pre, o in res.lines:
        if pre == "OK":
            ok.add(int(o))
        else:
            bad[o["id"]] = o
    if (ok | set(bad)) != {r["id"] for r in records}:
        raise MachineryError(f"{module} visited {len(ok | set(bad))} of {len(records)} records")
    return ok, bad
