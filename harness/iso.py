"""Equality / hash / isomorphism enumeration / enantiomer checks on the case
families of spec/MC_IsoPairs.tla (C01, C02, C03, C05, C06, C16).

TLC prints every family member (G), for every selected ordered pair the
complete set of structure-preserving bijections (P) and for every stereo graph
whether it is superimposable on its mirror image (E).  The harness builds the
two members of a pair with DIFFERENT identifier sets and insertion orders and
asks the real classes."""
from __future__ import annotations

import json
import multiprocessing as mp
import os
import random
import tempfile
import time

from . import common, model
from .common import Reporter, MachineryError
from .model import IdMap, build, project, canon, diff

FAMILIES = {
    # name: (quick SampleMod, thorough SampleMod)
    "mg3": (1, 1), "mg4": (40, 4), "smg3": (1, 1), "crg2": (1, 1), "crg3": (60, 6), "scrg2": (1, 1),
    "prismr": (1, 1), "prismsr": (3, 1), "cuber": (1, 1), "twop": (1, 1), "exch": (1, 1), "exchs": (1, 1), "twoc": (1, 1), "allylr": (1, 1), "elcyc": (1, 1),
    "star5": (30, 3), "star5r": (60, 10), "star4lp": (10, 1), "lp2": (1, 1), "ethener": (1, 1), "nopar": (1, 1), "ethene": (10, 1), "two": (1, 1),
    "tbp": (1, 1), "oct": (1, 1), "sn2": (10, 1),
}
QUICK_FAMS = ["mg3", "mg4", "smg3", "crg2", "crg3", "scrg2", "prismr", "prismsr", "cuber", "exch", "exchs", "twoc", "allylr", "elcyc", "star5", "star4lp", "lp2", "ethener", "nopar", "ethene", "two", "twop", "tbp", "oct", "sn2"]
THOROUGH_FAMS = list(FAMILIES)
LABEL_FAMS = {"mg3", "star4lp", "lp2", "two", "nopar"}
PAIR_CAP = {"quick": 3000, "thorough": 400000}


def cfg_text(fam, mod, with_pairs=True, with_labels=False):
    return ("SPECIFICATION Spec\nCONSTANTS\n  Fam = \"%s\"\n  SampleMod = %d\n  WithPairs = %s\n  WithLabels = %s\n"
            "CONSTRAINT Emit\nINVARIANT PairThm\nCHECK_DEADLOCK FALSE\n"
            % (fam, mod, "TRUE" if with_pairs else "FALSE", "TRUE" if with_labels else "FALSE"))


def shuffled_build(gj, idm, rnd):
    g2 = dict(gj)
    for k in ("atoms", "bonds", "ast", "bst", "ach", "bch"):
        lst = list(gj[k])
        rnd.shuffle(lst)
        g2[k] = lst
    # bonds before/after atoms cannot be reordered; build() keeps atoms first
    return build(g2, idm)


def run_family(args):
    fam, tier, seed, need = args
    need = set(need)
    model.init()
    from stereomolgraph.algorithms.isomorphism import vf2pp_all_isomorphisms
    rnd = random.Random(seed * 101 + sum(map(ord, fam)))
    mod = FAMILIES[fam][0 if tier == "quick" else 1]
    d = tempfile.mkdtemp(prefix="smg-iso-")
    cfg = os.path.join(d, "iso.cfg")
    open(cfg, "w").write(cfg_text(fam, mod, bool(need - {"mirror"}), "enum" in need and fam in LABEL_FAMS))
    try:
        res = common.run_tlc("MC_IsoPairs", cfg=cfg, workers=4, prefixes=("G", "P", "E"), timeout=3000, heap="6g")
    finally:
        import shutil
        shutil.rmtree(d, ignore_errors=True)
    tail = "\n".join(res.raw_tail)
    if res.rc != 0 or "Error:" in tail:
        return {"fam": fam, "error": tail[-2500:]}
    graphs, pairs, mirrors = {}, [], []
    parts = {}
    seenp = set()
    for pre, o in res.lines:
        if pre == "G":
            graphs[o["i"]] = o["g"]
            if o.get("part") is not None:
                parts[o["i"]] = o["part"]
        elif pre == "P":
            if (o["i"], o["j"]) not in seenp:
                seenp.add((o["i"], o["j"]))
                pairs.append(o)
        else:
            mirrors.append(o)
    pairs.sort(key=lambda o: (o["i"], o["j"]))
    cap = PAIR_CAP[tier]
    if len(pairs) > cap:
        keep_iso = [p for p in pairs if p["isos"]]
        rest = [p for p in pairs if not p["isos"]]
        rnd.shuffle(keep_iso)
        rnd.shuffle(rest)
        pairs = keep_iso[: cap // 2] + rest[: cap - min(len(keep_iso), cap // 2)]
    n_ids = 12
    poolA = rnd.sample(range(-60, 200), n_ids)
    if 0 not in poolA:
        poolA[rnd.randrange(5)] = 0          # identifier 0 is legitimate and falsy
    if -1 not in poolA:
        poolA[[k for k in range(6) if poolA[k] != 0][rnd.randrange(5)]] = -1     # and -1 is a favourite "no atom" sentinel
    poolB = [x + 1000 for x in rnd.sample(range(-60, 5000), n_ids)]
    # several spellings of the second member of a pair (insertion / registration order matters to some defects)
    idA = IdMap({k + 1: poolA[k] for k in range(n_ids)})
    idB = IdMap({k + 1: poolB[k] for k in range(n_ids)})
    fails = []

    def fail(props, sig, what, detail):
        if len(fails) < 3000:
            fails.append({"props": sorted(props), "sig": sig, "what": what, "detail": detail if len(fails) < 300 else {}})

    objA, objB = {}, {}
    kind = None
    for i, gj in graphs.items():
        kind = gj["kind"]
        try:
            objA[i] = build(gj, idA)
            objB[i] = shuffled_build(gj, idB, rnd)
        except Exception as e:
            fail({"C09"}, f"build|{fam}|{type(e).__name__}", "family member cannot be built through the public API",
                 {"g": gj, "error": repr(e)})
    # conformance of the real colour refinement with the design model SMGRefine: same partition of the atoms
    n_part = 0
    if parts and "hash" in need:
        from stereomolgraph.algorithms.color_refine import color_refine_mg, color_refine_crg, label_hash
        for i, want in parts.items():
            if i not in objA:
                continue
            x = objA[i]
            n_part += 1
            try:
                if kind == "MG":
                    cols = color_refine_mg(x, atom_labels=label_hash(x, atom_labels=("atom_type",)))
                else:
                    cols = color_refine_crg(x, atom_labels=label_hash(x, atom_labels=("atom_type", "reaction")))
                byc = {}
                for a, c in zip(x.atoms, cols):
                    byc.setdefault(int(c), []).append(idA.b(a))
                got = sorted(sorted(v) for v in byc.values())
            except Exception as e:
                got = f"raise:{type(e).__name__}"
            if got != sorted(sorted(c) for c in want):
                fail({"C16", "C02"}, f"refinement-partition-differs-from-model|{fam}|{kind}",
                     "the partition of the atoms induced by the real colour refinement differs from the 1-WL design model "
                     "(SMGRefine, own colour kept)", {"g": graphs[i], "model": want, "real": got})
    stereo = kind in ("SMG", "SCRG")
    changes = kind == "SCRG"
    reaction = kind in ("CRG", "SCRG")
    n_pairs = n_iso = n_enum = n_sigdiff = n_su = n_lab = n_sym = 0
    hashes = {}

    def H(tag, i, o):
        k = (tag, i)
        if k not in hashes:
            try:
                hashes[k] = hash(o)
            except Exception as e:
                hashes[k] = ("raise", type(e).__name__)
        return hashes[k]

    samples = []
    for p in pairs:
        i, j = p["i"], p["j"]
        if i not in objA or j not in objB:
            continue
        x, y = objA[i], objB[j]
        exp_iso = len(p["isos"]) > 0
        n_pairs += 1
        n_iso += exp_iso
        det = {"fam": fam, "g": graphs[i], "h": graphs[j], "isos": p["isos"][:4], "idmapA": idA.fwd, "idmapB": idB.fwd}
        try:
            if "eq" in need:
                e1, e2, e3 = (x == y), (y == x), x.is_isomorphic(y)
            else:
                e1 = e2 = e3 = exp_iso
        except Exception as e:
            fail({"C01"} if exp_iso else {"C02"}, f"eq-raises|{fam}|{type(e).__name__}",
                 f"== raised {type(e).__name__} on a pair of {kind} graphs", det)
            continue
        # C01 demands equality when h is g renamed / re-spelled; C02 demands inequality when no bijection exists
        # at all (fully specified parities).  An unspecified parity that matches a specified one is pinned by neither.
        must_equal = p.get("respell", exp_iso)
        for val, nm in ((e1, "x==y"), (e2, "y==x"), (e3, "is_isomorphic")):
            if exp_iso and not must_equal:
                continue
            if val is not exp_iso:
                if exp_iso:
                    fail({"C01"}, f"eq-miss|{fam}|{kind}|{nm}|{'same' if i == j else 'other'}-member",
                         f"{nm} is {val} although a structure-preserving bijection exists", det)
                elif p.get("spec", True):     # C02 speaks about fully specified parities only
                    fail({"C02"}, f"eq-lie|{fam}|{kind}|{nm}",
                         f"{nm} is {val} although no structure-preserving bijection exists", det)
        if reaction:
            sig_differs = not (p["sigr"] and p["sigp"] and p["sigt"])
        else:
            sig_differs = not p["sigeq"]
        if "hash" in need and (exp_iso or sig_differs or p.get("su")):
            hx, hy = H("A", i, x), H("B", j, y)
        else:
            hx, hy = 0, (0 if exp_iso else 1)
        if exp_iso and must_equal and hx != hy and p.get("spec", True):
            fail({"C03"}, f"hash-differs-on-equal|{fam}|{kind}", "isomorphic graphs have different hashes", det)
        if sig_differs:
            n_sigdiff += 1
            if hx == hy:
                fail({"C16"}, f"hash-collides-on-different-signature|{fam}|{kind}",
                     "graphs whose (element, neighbour elements) multisets differ have the same hash", det)
        if p.get("su"):
            n_su += 1
            if hx == hy:
                unit = (graphs[i]["ast"] + graphs[i]["bst"])[0][-1][0]
                fail({"C16"}, f"hash-collides-on-single-unit-stereoisomers|{kind}|{unit}",
                     "the two stereoisomers of a molecule with one stereogenic unit have the same hash", det)
        # C05: exact enumeration (reaction graphs too: the role of every bond is part of the structure)
        # (with an unspecified parity the specification's notion of "preserved" is deliberately loose: not compared)
        exp_maps = p["isos"] if ("enum" in need and (not reaction or p.get("spec", True))) else None
        if exp_maps is not None:
            n_enum += 1
            try:
                got = list(vf2pp_all_isomorphisms(x, y, stereo=stereo, stereo_change=changes))
            except Exception as e:
                fail({"C05"}, f"enum-raises|{fam}|{type(e).__name__}", "vf2pp_all_isomorphisms raised", det)
                continue
            src = sorted(a[0] for a in graphs[i]["atoms"])
            exp_set = {tuple(sorted((idA.f(a), idB.f(b)) for a, b in zip(src, m))) for m in exp_maps}
            got_l = [tuple(sorted(m.items())) for m in got]
            got_set = set(got_l)
            if len(got_l) != len(got_set):
                fail({"C05"}, f"enum-duplicate|{fam}|{kind}", "a mapping is yielded twice", det)
            if got_set - exp_set:
                fail({"C05"}, f"enum-invalid|{fam}|{kind}", "a yielded mapping is not a structure-preserving bijection",
                     {**det, "extra": [list(m) for m in list(got_set - exp_set)[:3]]})
            if exp_set - got_set:
                fail({"C05"}, f"enum-missing|{fam}|{kind}", "a structure-preserving bijection is not yielded",
                     {**det, "missing": [list(m) for m in list(exp_set - got_set)[:3]]})
        # C05 with caller-supplied labels, and the symmetry number
        if exp_maps is not None:
            src = sorted(a[0] for a in graphs[i]["atoms"])
            for key, lab in (("lab2", lambda a: a % 2), ("lab1", lambda a: 7)):
                if p.get(key) is None:
                    continue
                n_lab += 1
                la = {idA.f(a[0]): lab(a[0]) for a in graphs[i]["atoms"]}
                lb = {idB.f(a[0]): lab(a[0]) for a in graphs[j]["atoms"]}
                try:
                    got = list(vf2pp_all_isomorphisms(x, y, atom_labels=(la, lb), stereo=stereo, stereo_change=False))
                except Exception as e:
                    fail({"C05"}, f"enum-labels-raises|{fam}|{type(e).__name__}", "vf2pp_all_isomorphisms with caller labels raised", det)
                    continue
                exp_set = {tuple(sorted((idA.f(a), idB.f(b)) for a, b in zip(src, m))) for m in p[key]}
                got_l = [tuple(sorted(m.items())) for m in got]
                if len(got_l) != len(set(got_l)) or set(got_l) != exp_set:
                    kindl = "duplicate" if len(got_l) != len(set(got_l)) else ("invalid" if set(got_l) - exp_set else "missing")
                    fail({"C05"}, f"enum-labels-{kindl}|{fam}|{kind}|{key}",
                         f"with caller-supplied labels the enumerator yields a {kindl} mapping", {**det, "labels": key})
            if i == j and stereo and kind == "SMG" and p.get("spec", True):
                n_sym += 1
                try:
                    from stereomolgraph.experimental import topological_symmetry_number
                    tsn = topological_symmetry_number(x)
                except Exception as e:
                    tsn = f"raise:{type(e).__name__}"
                if tsn != len(p["isos"]):
                    fail({"C05"}, f"symmetry-number|{fam}|{'raises' if isinstance(tsn, str) else 'wrong'}",
                         f"topological_symmetry_number is {tsn}, the number of stereo-preserving automorphisms is {len(p['isos'])}", det)
        if len(samples) < 3 and exp_iso and i != j:
            samples.append({"fam": fam, "g": graphs[i], "h": graphs[j], "n_isos": len(p["isos"])})
    # C06: enantiomer
    n_mirror = 0
    for m in mirrors:
        i = m["i"]
        if i not in objA:
            continue
        x = objA[i]
        n_mirror += 1
        before, _ = project(x, idA)
        try:
            en = x.enantiomer()
            pe, bad = project(en, idA)
            same = (x == en)
            same2 = (en == x)
            twice, _ = project(en.enantiomer(), idA)
        except Exception as e:
            fail({"C06"}, f"enantiomer-raises|{fam}|{type(e).__name__}", "enantiomer() or comparison with it raised",
                 {"g": graphs[i]})
            continue
        after, _ = project(x, idA)
        det = {"fam": fam, "g": graphs[i], "mirror_expected": m["mirror"], "mirror_observed": pe}
        dd = diff(pe, canon(m["mirror"]))
        if dd:
            fail({"C06"}, f"enantiomer-not-mirror|{fam}|{kind}|{dd}", f"enantiomer() differs from the mirror image in {dd}", det)
        if diff(after, before):
            fail({"C06", "C10"}, f"enantiomer-modifies-source|{fam}|{kind}", "enantiomer() modified the original", det)
        if diff(twice, before):
            fail({"C06"}, f"enantiomer-twice|{fam}|{kind}", "applying enantiomer() twice does not restore the graph", det)
        if not dd and (same is not m["achiral"] or same2 is not m["achiral"]):
            fail({"C06", "C02" if not m["achiral"] else "C01"},
                 f"enantiomer-equality|{fam}|{kind}|achiral={m['achiral']}",
                 f"g == g.enantiomer() is {same} but a bijection onto the mirror image "
                 f"{'exists' if m['achiral'] else 'does not exist'}", det)
    return {"fam": fam, "kind": kind, "states": res.distinct, "generated": res.generated, "graphs": len(graphs),
            "pairs": n_pairs, "pairs_iso": n_iso, "enumerations": n_enum, "sig_different_pairs": n_sigdiff, "single_unit_pairs": n_su, "label_enumerations": n_lab, "symmetry_numbers": n_sym, "refinement_partitions": n_part,
            "mirrors": n_mirror, "fails": fails, "samples": samples, "wall": res.wall}


PROP_TEXT = {
    "C01": "equality never misses", "C02": "equality never lies", "C03": "hash agrees with equality",
    "C05": "isomorphism enumeration is exact", "C06": "enantiomer() is the mirror image",
    "C16": "hash separates elementary differences",
}


NEED = {"C01": ("eq",), "C02": ("eq",), "C03": ("hash",), "C05": ("enum",), "C06": ("mirror",), "C16": ("hash",)}
STEREO_FAMS = {"elcyc", "allylr", "twoc", "twop", "ethener", "nopar", "smg3", "scrg2", "star5", "star5r", "star4lp", "lp2", "ethener", "nopar", "ethene", "two", "tbp", "oct", "sn2"}
REACTION_FAMS = {"elcyc", "allylr", "twoc", "exch", "exchs", "ethener", "crg2", "crg3", "scrg2", "star5r", "sn2", "prismr", "prismsr", "cuber"}


def run_families(tier, prop):
    fams = QUICK_FAMS if tier == "quick" else THOROUGH_FAMS
    if prop == "C06":
        fams = [f for f in fams if f in STEREO_FAMS]
    jobs = [(f, tier, common.seed(), NEED[prop]) for f in fams]
    out = []
    with mp.Pool(5) as pool:
        for r in pool.imap_unordered(run_family, jobs, chunksize=1):
            if os.environ.get("VERIF_VERBOSE"):
                print("  family", r.get("fam"), "pairs", r.get("pairs"), "fails", len(r.get("fails", [])), flush=True)
            out.append(r)
    out.sort(key=lambda r: fams.index(r["fam"]))
    return out


def collect(prop, tier, rep: Reporter, extra=None):
    results = run_families(tier, prop)
    tot = {"states": 0, "generated": 0, "graphs": 0, "pairs": 0, "pairs_iso": 0, "enumerations": 0,
           "sig_different_pairs": 0, "single_unit_pairs": 0, "label_enumerations": 0, "symmetry_numbers": 0, "refinement_partitions": 0, "mirrors": 0}
    per = {}
    samples = []
    for r in results:
        if "error" in r:
            raise MachineryError(f"family {r['fam']}: {r['error']}")
        for k in tot:
            tot[k] += r[k]
        per[r["fam"]] = {k: r[k] for k in ("kind", "graphs", "pairs", "pairs_iso", "enumerations",
                                           "sig_different_pairs", "single_unit_pairs", "label_enumerations", "symmetry_numbers", "refinement_partitions", "mirrors", "states")}
        samples += r["samples"][:1]
        for f in r["fails"]:
            if prop in f["props"]:
                rep.violation(f"{prop}|{f['sig']}", f["what"], f["detail"])
    return tot, per, samples
