"""C04 - stereodescriptor identity is spatial identity.

Oracle: spec/SMGStereo.tla (figures -> Sym/Proper/Improper -> ClassKey).
 * code -> spec: the public PERMUTATION_GROUP / inversion tables are dumped and
   TLC (Obs_StereoTables) compares them with the derived groups.
 * spec -> code: TLC (MC_StereoCases) enumerates every arrangement x parity x
   placeholder pattern with its canonical class key; the real classes must
   agree: x == y  <=>  key(x) = key(y), hash, invert, parity None.
Python holds no descriptor semantics: only construction, ==, hash, invert.
"""
from __future__ import annotations

import itertools
import json
import multiprocessing as mp
import os
import random
import tempfile

from . import common
from .common import Reporter, run_tlc, cached_cases, MachineryError

CLASS_NAMES = ["Tetrahedral", "SquarePlanar", "TrigonalBipyramidal",
               "Octahedral", "PlanarBond", "AtropBond"]


def _classes():
    import stereomolgraph.stereodescriptors as sd
    return {n: getattr(sd, n) for n in CLASS_NAMES}


def produce_cases():
    res = run_tlc("MC_StereoCases", cfg="MC_StereoCases.cfg", prefixes=("C04",),
                  workers=16, timeout=1800)
    common.tlc_ok(res, "MC_StereoCases")
    seen = set()
    out = []
    for _, o in res.lines:
        k = (o["cls"], tuple(-1 if a is None else a for a in o["atoms"]), o["par"])
        if k in seen:
            continue
        seen.add(k)
        out.append(o)
    return {"cases": out, "states": res.distinct, "generated": res.generated,
            "wall": res.wall}


def get_cases():
    return cached_cases("c04cases", ["SMGFigures.tla", "SMGGroups.tla", "SMGStereo.tla", "SMGJson.tla",
                                     "MC_StereoCases.tla", "MC_StereoCases.cfg"],
                        produce_cases)


def table_check(rep: Reporter):
    """code -> spec binding of the public tables (skipped if attributes vanish)."""
    cl = _classes()
    dump = {}
    try:
        for n, c in cl.items():
            dump[n] = {"group": [list(r) for r in c.PERMUTATION_GROUP],
                       "inversion": list(c.inversion) if c.inversion else []}
    except Exception as e:  # refactoring removed the attributes: binding aid only
        rep.note(f"table check skipped: {type(e).__name__}: {e}")
        return 0, None
    d = tempfile.mkdtemp(prefix="smg-c04-")
    try:
        path = os.path.join(d, "tables.json")
        with open(path, "w") as f:
            json.dump(dump, f)
        res = run_tlc("Obs_StereoTables", cfg="Obs_StereoTables.cfg",
                      env={"OBS_FILE": path}, workers=1, prefixes=("T04",), timeout=600)
    finally:
        import shutil
        shutil.rmtree(d, ignore_errors=True)
    if res.rc != 0:
        # a table that is not even a list of permutations makes TLC fail in Shift
        rep.violation("C04|tables|malformed", "permutation tables could not be evaluated by the spec",
                      {"tlc_tail": res.raw_tail[-15:], "dump": dump})
        return 1, None
    got = {}
    for _, o in res.lines:
        got[o["cls"]] = o
    if set(got) != set(CLASS_NAMES):
        raise MachineryError("Obs_StereoTables did not report all classes")
    for n, o in got.items():
        if not o["table_ok"]:
            rep.violation(f"C04|{n}|table-not-proper-group",
                          f"{n}.PERMUTATION_GROUP is not the proper rotation group of its figure "
                          f"(missing {o['missing']}, extra {o['extra']})", {"obs": o, "dump": dump[n]})
        if not o["inv_ok"]:
            rep.violation(f"C04|{n}|inversion-not-improper",
                          f"{n}.inversion is not an improper symmetry of its figure / not None for an achiral class",
                          {"obs": o, "dump": dump[n]})
    return len(got), got


# --------------------------------------------------------------------------
# behaviour: worker evaluates a block of ordered pairs
# --------------------------------------------------------------------------
_G = {}


def _mk(cls, atoms, par, idmap):
    return cls(tuple(None if a is None else idmap[a] for a in atoms), par)


def _init_worker(idmap, idmap0=None):
    _G["cl"] = _classes()
    _G["idmap"] = idmap
    _G["idmap0"] = idmap0 or idmap


def _pair_block(args):
    """rows x cols ordered pairs within one family.  Returns (n_eval, n_equal_expected, failures)."""
    cname, rows, cols = args[:3]
    cls = _G["cl"][cname]
    idmap = _G["idmap0"] if len(args) > 3 and args[3] else _G["idmap"]
    robj = [(_mk(cls, r["atoms"], r["par"], idmap), r) for r in rows]
    cobj = [(_mk(cls, c["atoms"], c["par"], idmap), c) for c in cols]
    chash = []
    for y, _c in cobj:
        try:
            chash.append(hash(y))
        except Exception as e:  # noqa
            chash.append(("raise", type(e).__name__))
    fails = []
    n = 0
    neq = 0
    for x, r in robj:
        try:
            hx = hash(x)
        except Exception as e:
            hx = ("raise", type(e).__name__)
        for (y, c), hy in zip(cobj, chash):
            n += 1
            exp = r["key"] == c["key"]
            neq += exp
            try:
                got = (x == y)
            except Exception as e:
                got = f"raise:{type(e).__name__}"
            if got is not exp and len(fails) < 5:
                fails.append(("eq", exp, got, r, c))
            elif got is not exp:
                fails.append(("eq", exp, got, None, None))
            if exp and hx != hy:
                fails.append(("hash", True, (str(hx), str(hy)), r, c))
    return cname, n, neq, fails


def run(tier: str) -> int:
    rep = Reporter("C04", tier)
    rnd = random.Random(common.seed())
    data = get_cases()
    cases = data["cases"]
    cl = _classes()
    # arbitrary concrete identifiers (spec is invariant under the choice)
    pool = rnd.sample(range(-50, 400), 9)
    idmap = {i + 1: pool[i] for i in range(9)}
    # second spelling of the identifiers: the falsy identifier 0 and the "sentinel-like" -1 as LIGANDS (next to
    # lone-pair placeholders they are what a careless `a or 0` / `-1 for None` confuses)
    idmap0 = dict(idmap)
    idmap0[2], idmap0[3] = 0, -1
    for k in (1, 4, 5, 6, 7, 8, 9):
        while idmap0[k] in (0, -1):
            idmap0[k] = rnd.randrange(500, 900)

    n_tab, tabs = table_check(rep)

    by_cls = {n: [c for c in cases if c["cls"] == n] for n in CLASS_NAMES}
    keyof = {(c["cls"], tuple(c["atoms"]), c["par"]): c["key"] for c in cases}

    jobs = []
    budget_rows = {"quick": 160, "thorough": None}[tier]
    fam_count = 0
    for n in CLASS_NAMES:
        cs = by_cls[n]
        # (a) ligand permutations without placeholder: all ordered pairs
        fam = [c for c in cs if c["nph"] == 0 and c["ligperm"]]
        rows = fam if (budget_rows is None or len(fam) <= 300) else rnd.sample(fam, budget_rows)
        for i in range(0, len(rows), 40):
            jobs.append((n, rows[i:i + 40], fam))
        fam_count += 1
        # (b) all n! position permutations (centre / bond atoms moved): base vs all, both directions
        full = [c for c in cs if c["nph"] == 0]
        base = [c for c in full if c["atoms"] == sorted(c["atoms"])]
        jobs.append((n, base, full))
        for i in range(0, len(full), 2000):
            jobs.append((n, full[i:i + 2000], base))
        # (c) placeholder families: same multiset of atoms
        fams = {}
        for c in cs:
            if c["nph"] > 0:
                k = tuple(sorted(-1 if a is None else a for a in c["atoms"]))
                fams.setdefault(k, []).append(c)
        for k, fam in sorted(fams.items()):
            fam_count += 1
            if budget_rows is None or len(fam) <= 300:
                rows = fam if tier == "thorough" or len(fam) <= 300 else rnd.sample(fam, 60)
            else:
                rows = rnd.sample(fam, 40)
            if tier == "thorough" and len(fam) > 300:
                rows = rnd.sample(fam, 300)
            for i in range(0, len(rows), 40):
                jobs.append((n, rows[i:i + 40], fam))
            rows0 = rows if len(rows) <= 60 else rnd.sample(rows, 60)
            jobs.append((n, rows0, fam, True))

    n_pairs = 0
    n_equal = 0
    per_class = {n: 0 for n in CLASS_NAMES}
    with mp.Pool(min(16, os.cpu_count() or 4), initializer=_init_worker, initargs=(idmap, idmap0)) as pool_:
        for cname, n, neq, fails in pool_.imap_unordered(_pair_block, jobs, chunksize=1):
            n_pairs += n
            n_equal += neq
            per_class[cname] += n
            for kind, exp, got, r, c in fails:
                nph = r["nph"] if r else "?"
                if kind == "eq":
                    sig = f"C04|{cname}|eq|expected-{'equal' if exp else 'unequal'}|got-{got}|nph={nph}"
                    what = (f"{cname}: x == y is {got} but the arrangements are "
                            f"{'the same' if exp else 'different'} spatially")
                else:
                    sig = f"C04|{cname}|hash|equal-descriptors-different-hash|nph={nph}"
                    what = f"{cname}: equal descriptors have different hashes"
                if r is not None:
                    rep.violation(sig, what, {"x": r, "y": c, "idmap": idmap, "idmap_with_0_and_minus1": idmap0, "expected": exp, "got": got})
                else:
                    rep.violation(sig, what, {})

    # (d) invert / (e) parity None -- single-object laws, sequential
    n_single = 0
    for n in CLASS_NAMES:
        cls = cl[n]
        chiral = None
        for c in by_cls[n]:
            if not c["ligperm"]:
                continue
            x = _mk(cls, c["atoms"], c["par"], idmap)
            n_single += 1
            try:
                hash(x)                      # a descriptor that has been hashed / compared before being inverted
                xi = x.invert()
                fresh = cls(xi.atoms, xi.parity)
                if not ((xi == fresh) is True and hash(xi) == hash(fresh)):
                    rep.violation(f"C04|{n}|inverted-object-differs-from-fresh-equal-descriptor",
                                  f"{n}: x.invert() is unequal to, or hashes differently from, a freshly built descriptor with "
                                  f"the same atoms and parity", {"x": c, "idmap": idmap})
                xii = xi.invert()
                ok2 = (xii.atoms == x.atoms and xii.parity == x.parity and xii == x)
            except Exception as e:
                ok2 = False
                xi = None
            if not ok2:
                rep.violation(f"C04|{n}|invert-twice", f"{n}: inverting twice does not restore the descriptor",
                              {"x": c, "idmap": idmap})
                continue
            is_chiral = c["par"] != 0
            # mirror image is the same arrangement exactly when TLC's keys of
            # (t, p) and (t, -p) coincide (always for achiral classes, and for
            # chiral classes only with indistinguishable placeholders)
            exp_same = (not is_chiral) or (
                keyof[(n, tuple(c["atoms"]), c["par"])] == keyof[(n, tuple(c["atoms"]), -c["par"])])
            same = (xi == x)
            if same is not exp_same:
                rep.violation(f"C04|{n}|invert-once|chiral={is_chiral}|equal={same}|nph={c['nph']}",
                              f"{n}: x.invert() == x is {same} but the mirror image is "
                              f"{'the same' if exp_same else 'a different'} arrangement",
                              {"x": c, "idmap": idmap})
            if is_chiral and c["nph"] == 0:
                # the inverted descriptor must denote the class of (t, -p): look the
                # real object's (atoms, parity) up in TLC's table
                inv = {v: k for k, v in idmap.items()}
                t_inv = tuple(None if a is None else inv[a] for a in xi.atoms)
                k_obs = keyof.get((n, t_inv, xi.parity))
                k_exp = keyof.get((n, tuple(c["atoms"]), -c["par"]))
                if k_obs is None or k_obs != k_exp:
                    rep.violation(f"C04|{n}|invert-class", f"{n}: invert() does not give the mirror image class",
                                  {"x": c, "inverted": [list(t_inv), xi.parity], "idmap": idmap})
    # parity None equals every descriptor over the same atoms
    n_none = 0
    for n in CLASS_NAMES:
        cls = cl[n]
        fam = [c for c in by_cls[n] if c["nph"] == 0]
        base = [c for c in fam if c["atoms"] == sorted(c["atoms"])][0]
        xn = _mk(cls, base["atoms"], None, idmap)
        sample = fam if tier == "thorough" or len(fam) < 800 else rnd.sample(fam, 600)
        hn = hash(xn)
        for c in sample[:400]:
            yn = _mk(cls, c["atoms"], None, idmap)
            n_none += 1
            if not ((xn == yn) is True and hash(yn) == hn):
                rep.violation(f"C04|{n}|parity-none-pair|unequal-or-different-hash",
                              f"{n}: two descriptors with unspecified parity over the same atoms are unequal or hash differently",
                              {"x": [base["atoms"], None], "y": [c["atoms"], None], "idmap": idmap})
        for c in sample:
            y = _mk(cls, c["atoms"], c["par"], idmap)
            n_none += 1
            try:
                ok = (xn == y) is True and (y == xn) is True
            except Exception as e:
                ok = False
            if not ok:
                rep.violation(f"C04|{n}|parity-none-not-equal",
                              f"{n}: descriptor with unspecified parity is not equal to a descriptor over the same atoms",
                              {"x": [base["atoms"], None], "y": c, "idmap": idmap})
        for c in [c for c in by_cls[n] if c["nph"] > 0][:200]:
            xn2 = _mk(cls, c["atoms"], None, idmap)
            y = _mk(cls, c["atoms"], c["par"], idmap)
            n_none += 1
            if not ((xn2 == y) is True and (y == xn2) is True and (xn2 == xn2) is True):
                rep.violation(f"C04|{n}|parity-none-not-equal|placeholder",
                              f"{n}: unspecified-parity descriptor with placeholder not equal over same atoms",
                              {"y": c, "idmap": idmap})

    n_classes = len({(c["cls"], c["key"]) for c in cases})
    exhaustive = tier == "thorough"
    cov = {
        "states": data["states"],
        "transitions": data["generated"],
        "traces_validated_against_impl": len(cases),
        "evaluations": n_pairs + n_single + n_none + n_tab,
        "distinct_nontrivial": n_classes,
        "rule": "TLC enumerates every (class, arrangement of distinct ids on all positions, specified parity, "
                "placeholder pattern) with its canonical class key; distinct_nontrivial = number of distinct "
                "(class, key) equivalence classes; every case is built as a real descriptor and compared pairwise",
        "pairs_evaluated": n_pairs,
        "pairs_expected_equal": n_equal,
        "pairs_per_class": per_class,
        "families": fam_count,
        "single_object_laws": n_single,
        "parity_none_cases": n_none,
        "tables_checked": n_tab,
        "table_verdicts": tabs,
        "exhaustive": False,
        "exhaustive_note": "case space (n! arrangements x parities x placeholder patterns) is enumerated completely by TLC; "
                           "thorough evaluates all ordered pairs of ligand permutations without placeholder and 300 rows x all "
                           "columns of each placeholder family, quick evaluates sampled rows x all columns for large families",
        "idmap": idmap,
        "samples": [cases[0], cases[len(cases) // 2], cases[-1]],
    }
    return rep.finish("model_checking", cov, [
        "idealised figures with integer coordinates in spec/SMGStereo.tla define each class",
        "TLC 1.8 evaluates the spec correctly; ASSUME theorems (group, coset, class counts 2/3/20/30/12/12) guard the spec",
        "Python side only constructs descriptors and calls ==, hash, invert",
    ])


def warm():
    get_cases()
