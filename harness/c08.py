"""C08 - reaction graphs decompose and reverse faithfully.

spec -> code: MC_React enumerates (reactant, product, optional TS) triples; the harness builds the
three real graphs (arbitrary identifiers), calls from_graphs, reactant(), product(),
reverse_reaction() (twice) and records every projection.
code -> spec: Obs_React (TLC) evaluates the contract on every record and names the failing clause.
Plus the reactant/product/reverse transitions of the edit machine (profiles V2, V4) and random traces."""
from __future__ import annotations

import json
import os
import random
import shutil
import tempfile

from . import common, model, edit, drive
from .common import Reporter, run_tlc, MachineryError
from .model import IdMap, build, project

MODS = {"quick": {"star": 45, "stard": 45, "h3": 1, "ethene": 1}, "thorough": {"star": 4, "stard": 6, "h3": 1, "ethene": 1}}
CLAUSES = ("reactant", "product", "formed", "broken", "fleeting", "allbonds", "encoding", "revsides", "revfleet", "revrev")


def cases(fam, mod):
    d = tempfile.mkdtemp(prefix="smg-react-")
    try:
        cfg = os.path.join(d, "r.cfg")
        open(cfg, "w").write("SPECIFICATION Spec\nCONSTANTS\n  Fam = \"%s\"\n  SampleMod = %d\nCONSTRAINT Emit\nCHECK_DEADLOCK FALSE\n"
                             % (fam, mod))
        res = run_tlc("MC_React", cfg=cfg, workers=8, prefixes=("R",), timeout=1800)
    finally:
        shutil.rmtree(d, ignore_errors=True)
    common.tlc_ok(res, "MC_React " + fam)
    seen, out = set(), []
    for _, o in res.lines:
        k = json.dumps(o, sort_keys=True)
        if k not in seen:
            seen.add(k)
            out.append(o)
    return out, res


def run(tier):
    rep = Reporter("C08", tier)
    model.init()
    rnd = random.Random(common.seed() + 8)
    SCRG = model.KIND_CLASS["SCRG"]
    CRG = model.KIND_CLASS["CRG"]
    pool = rnd.sample(range(-500, 3000), 8)
    idm = IdMap({k + 1: pool[k] for k in range(8)})
    recs = []
    states = gen = 0
    raised = 0
    for fam, mod in MODS[tier].items():
        cs, res = cases(fam, mod)
        states += res.distinct
        gen += res.generated
        for c in cs:
            for stereo in (True, False):
                # the same triple also as plain MolGraphs -> CondensedReactionGraph.from_graphs
                def strip(gj):
                    if gj == 0:
                        return 0
                    return gj if stereo else {**gj, "kind": "MG", "ast": [], "bst": []}
                if not stereo and fam == "ethene":
                    continue
                r, p, ts = strip(c["r"]), strip(c["p"]), strip(c["ts"])
                gr, gp = build(r, idm), build(p, idm)
                gt = build(ts, idm) if ts != 0 else None
                rid = len(recs) + 1
                try:
                    x = (SCRG if stereo else CRG).from_graphs(gr, gp, gt)
                    xr, xp = x.reactant(), x.product()
                    rev = x.reverse_reaction()
                    rr, rp = rev.reactant(), rev.product()
                    rev2 = rev.reverse_reaction()
                except Exception as e:
                    raised += 1
                    import traceback
                    rep.violation(f"C08|from_graphs-chain-raises|{fam}|{'SCRG' if stereo else 'CRG'}|{type(e).__name__}",
                                  f"from_graphs / reactant / product / reverse_reaction raised {type(e).__name__} on a well-formed triple",
                                  {"r": r, "p": p, "ts": ts, "traceback": traceback.format_exc(limit=-3), "idmap": idm.fwd})
                    continue
                rec = {"id": rid, "r": drive.gjson(r), "p": drive.gjson(p), "ts": drive.gjson(ts) if ts != 0 else drive.EMPTYG}
                bad = []
                for name, obj in (("x", x), ("xr", xr), ("xp", xp), ("rev", rev), ("rr", rr), ("rp", rp), ("rev2", rev2)):
                    pj, b = project(obj, idm)
                    rec[name] = drive.gjson(pj)
                    bad += [f"{name}: {t}" for t in b]
                # the inputs must not have been modified
                for name, obj, want in (("r", gr, r), ("p", gp, p)):
                    pj, _ = project(obj, idm)
                    if model.diff(pj, model.canon({**want, "comp": pj["comp"], "valid": pj["valid"]})) not in (None, "valid"):
                        bad.append(f"input {name} modified")
                if bad:
                    rep.violation(f"C08|views-disagree|{fam}", "projection of a from_graphs result is incoherent: " + bad[0],
                                  {"record": rec, "incoherent": bad})
                    continue
                recs.append(rec)
    # TLC validates (in chunks: one TLC run parses its whole record file into memory)
    lines = []
    CH = 8000
    for k in range(0, len(recs), CH):
        d = tempfile.mkdtemp(prefix="smg-obsr-")
        try:
            path = os.path.join(d, "obs.ndjson")
            with open(path, "w") as f:
                for r in recs[k:k + CH]:
                    f.write(json.dumps(r, separators=(",", ":")) + "\n")
            res = run_tlc("Obs_React", cfg="Obs_React.cfg", env={"OBS_FILE": path}, workers=16, prefixes=("OK", "BAD"),
                          timeout=3000, heap="12g")
        finally:
            shutil.rmtree(d, ignore_errors=True)
        common.tlc_ok(res, "Obs_React")
        lines += res.lines
        states += res.distinct
        gen += res.generated
    ok, bad = set(), {}
    for pre, o in lines:
        if pre == "OK":
            ok.add(int(o))
        else:
            bad[o["id"]] = o
    if (ok | set(bad)) != {r["id"] for r in recs}:
        raise MachineryError("Obs_React did not visit every record")
    byid = {r["id"]: r for r in recs}
    for i, v in bad.items():
        r = byid[i]
        failing = [c for c in CLAUSES if not v[c]]
        kinds = lambda g: sorted({e[1][0] for e in g["ast"]} | {e[2][0] for e in g["bst"]}) or ["none"]
        sig = (f"C08|contract|{r['x']['kind']}|{failing[0]}|r={'+'.join(kinds(r['r']))}|p={'+'.join(kinds(r['p']))}"
               f"|ts={'+'.join(kinds(r['ts'])) if r['ts']['kind'] != 'none' else '-'}")
        rep.violation(sig, f"from_graphs contract clause(s) {failing} rejected by Obs_React", {"record": r, "verdict": v})
    ecov = edit.collect("C08", tier, rep)
    n_classes = len({json.dumps([r["x"]["bonds"], r["x"]["ast"], r["x"]["bst"], r["x"]["ach"], r["x"]["bch"]]) for r in recs})
    cov = {
        "states": states + ecov["states"], "transitions": gen + ecov["transitions"],
        "traces_validated_against_impl": len(recs) + ecov["traces_validated_against_impl"],
        "evaluations": len(recs) + ecov["evaluations"], "distinct_nontrivial": n_classes,
        "rule": "MC_React enumerates (reactant, product, optional TS) triples (3 variable bonds x 5 states x centre descriptor "
                "chosen independently in r/ts/p; ethene bond x bond descriptors); each is run through from_graphs / reactant / "
                "product / reverse_reaction x2 as SCRG and as CRG; distinct_nontrivial = distinct resulting reaction graphs",
        "triples_validated": len(recs), "accepted": len(ok), "chain_raised": raised,
        "edit_machine": {k: ecov[k] for k in ("profiles", "trace_validation")},
        "samples": [{k: recs[i][k] for k in ("r", "p", "ts", "x")} for i in (0, len(recs) // 2)] if recs else ["none"],
        "exhaustive": False,
    }
    return rep.finish("model_checking", cov, [
        "contract of from_graphs stated on observable behaviour only (spec/Obs_React.tla); descriptors compared up to symmetry",
        "cases use fully specified parities; attributes are not part of the cases (attribute loss in reverse_reaction is outside C08)",
    ])
