"""Shared infrastructure: TLC runner, caches, evidence, violations, known findings.

Verdict definitions never live here: this module only moves data between TLC and
the real classes and writes down what happened.
"""
from __future__ import annotations

import fnmatch
import hashlib
import json
import os
import re
import shutil
import subprocess
import sys
import tempfile
import time
from pathlib import Path

VERIF = Path(__file__).resolve().parent.parent
SPEC = VERIF / "spec"
CACHE = VERIF / "cache"
EVIDENCE = VERIF / "evidence"
REPLAYS = VERIF / "replays"
KNOWN = VERIF / "known_findings.json"
REPO = Path(os.environ.get("VERIF_REPO", "/repo"))

GUARD = "STEREOMOLGRAPH_VERIF"


class MachineryError(RuntimeError):
    """The verification machinery itself failed (exit 2, never a violation)."""


def seed() -> int:
    try:
        return int(os.environ.get("VERIF_SEED", "0"))
    except ValueError:
        return 0


def spec_digest(*names: str) -> str:
    h = hashlib.sha256()
    for n in sorted(names):
        h.update(n.encode())
        h.update((SPEC / n).read_bytes())
    return h.hexdigest()[:16]


_STAT_RE = re.compile(r"(\d+) states generated, (\d+) distinct states found")


class TlcResult:
    def __init__(self, lines, states, distinct, wall, rc, raw_tail):
        self.lines = lines          # decoded payload lines, list[(prefix, obj)]
        self.generated = states
        self.distinct = distinct
        self.wall = wall
        self.rc = rc
        self.raw_tail = raw_tail


def decode_tlc_string_line(line: str):
    """TLC prints a string value as a quoted literal with \\" and \\\\ escapes."""
    line = line.strip()
    if not (line.startswith('"') and line.endswith('"')):
        return None
    try:
        return json.loads(line)
    except Exception:
        body = line[1:-1].replace('\\"', '"').replace("\\\\", "\\")
        return body


def run_tlc(module: str, cfg: str | None = None, env: dict | None = None,
            workers: int | str = 16, timeout: int = 3600, extra: list[str] | None = None,
            prefixes: tuple[str, ...] = (), on_line=None, simulate: str | None = None,
            heap: str | None = None) -> TlcResult:
    """Run TLC on spec/<module>.tla.  Payload lines are the printed strings that
    start with one of `prefixes` followed by '|'.  If on_line is given it is
    called with (prefix, obj) as lines arrive (streaming) and nothing is kept."""
    meta = tempfile.mkdtemp(prefix="smg-tlc-")
    cmd = ["java", "-XX:+UseParallelGC"]
    if heap:
        cmd.append(f"-Xmx{heap}")
    cmd += ["-cp", "/opt/veriftools/tla/tla2tools.jar:/opt/veriftools/tla/CommunityModules-deps.jar",
            "tlc2.TLC", "-workers", str(workers), "-metadir", meta, "-noGenerateSpecTE"]
    if cfg:
        cmd += ["-config", cfg]
    if simulate:
        cmd += ["-simulate", simulate]
    if extra:
        cmd += extra
    cmd.append(module if module.endswith(".tla") else module + ".tla")
    e = dict(os.environ)
    if env:
        e.update({k: str(v) for k, v in env.items()})
    t0 = time.time()
    lines = []
    gen = dist = 0
    tail = []
    try:
        p = subprocess.Popen(cmd, cwd=str(SPEC), env=e, stdout=subprocess.PIPE,
                             stderr=subprocess.STDOUT, text=True, bufsize=1 << 20)
        assert p.stdout is not None
        for raw in p.stdout:
            if time.time() - t0 > timeout:
                p.kill()
                raise MachineryError(f"TLC timeout after {timeout}s on {module}")
            if raw.startswith('"'):
                s = decode_tlc_string_line(raw)
                if s is not None and "|" in s:
                    pre, _, body = s.partition("|")
                    if pre in prefixes:
                        try:
                            obj = json.loads(body)
                        except Exception:
                            obj = body
                        if on_line is not None:
                            on_line(pre, obj)
                        else:
                            lines.append((pre, obj))
                        continue
            m = _STAT_RE.search(raw)
            if m:
                gen, dist = int(m.group(1)), int(m.group(2))
            tail.append(raw.rstrip("\n"))
            if len(tail) > 60:
                tail.pop(0)
        rc = p.wait()
    finally:
        shutil.rmtree(meta, ignore_errors=True)
    wall = time.time() - t0
    return TlcResult(lines, gen, dist, wall, rc, tail)


def tlc_ok(res: TlcResult, what: str):
    """TLC must terminate normally; anything else is a machinery failure."""
    txt = "\n".join(res.raw_tail)
    if res.rc != 0 or "Error:" in txt:
        raise MachineryError(f"TLC failed on {what} (rc={res.rc}):\n" + txt[-3000:])


# ---------------------------------------------------------------------------
# known findings, violations, evidence
# ---------------------------------------------------------------------------

def load_known():
    if not KNOWN.exists():
        return {"findings": [], "fixed": []}
    return json.loads(KNOWN.read_text())


class Reporter:
    """Collects violations for one property run, separates known findings."""

    def __init__(self, prop: str, tier: str):
        self.prop = prop
        self.tier = tier
        self.t0 = time.time()
        self.known = [f for f in load_known().get("findings", []) if f["property"] == prop]
        self.violations: list[dict] = []      # unlisted
        self.known_hits: dict[str, int] = {}
        self.known_what: dict[str, str] = {}
        self.sig_seen: dict[str, int] = {}
        self.notes: list[str] = []
        self.max_per_sig = 3

    def violation(self, signature: str, what: str, detail: dict):
        """signature: stable id of the failing input class / call site."""
        for f in self.known:
            if fnmatch.fnmatchcase(signature, f["signature"]):
                k = f["signature"]
                self.known_hits[k] = self.known_hits.get(k, 0) + 1
                self.known_what[k] = f.get("what", what)
                return
        n = self.sig_seen.get(signature, 0)
        self.sig_seen[signature] = n + 1
        if n < self.max_per_sig:
            self.violations.append({"signature": signature, "what": what, "detail": detail})

    def note(self, text: str):
        if len(self.notes) < 50:
            self.notes.append(text)

    def finish(self, level: str, coverage: dict, assumptions: list[str]) -> int:
        EVIDENCE.mkdir(exist_ok=True)
        REPLAYS.mkdir(exist_ok=True)
        for k, n in self.known_hits.items():
            print(f"KNOWN-FINDING: property={self.prop} {self.known_what[k]} [{k}] ({n} cases)")
        total_unlisted = sum(self.sig_seen.values())
        paths = []
        for i, v in enumerate(self.violations):
            path = REPLAYS / f"{self.prop}-{i}.json"
            path.write_text(json.dumps({"property": self.prop, **v}, indent=1, default=str))
            paths.append(path)
            print(f"VIOLATION property={self.prop} replay={path}")
            print(f"  signature: {v['signature']}\n  what: {v['what']}")
        for n in self.notes[:20]:
            print("note:", n)
        cov = dict(coverage)
        cov.setdefault("samples", [])
        if not cov["samples"]:
            cov["samples"] = ["(no sample recorded)"]
        cov["known_finding_hits"] = self.known_hits
        cov["violation_signatures"] = dict(self.sig_seen)
        if self.notes:
            cov["notes"] = self.notes
        ev = {
            "property_id": self.prop,
            "tier": self.tier,
            "seed": seed(),
            "level": level,
            "coverage": cov,
            "assumptions": assumptions,
            "wall_s": round(time.time() - self.t0, 2),
            "violations": total_unlisted,
        }
        (EVIDENCE / f"{self.prop}.json").write_text(json.dumps(ev, indent=1, default=str))
        print(f"{self.prop} {self.tier}: evaluations={cov.get('evaluations')} "
              f"states={cov.get('states')} violations={total_unlisted} "
              f"known={sum(self.known_hits.values())} wall={ev['wall_s']}s")
        return 1 if total_unlisted else 0


def cached_cases(name: str, spec_files: list[str], producer) -> list:
    """Cases that depend on the specification only are cached under cache/,
    keyed by a digest of the spec files; producer() -> (list_of_objs, meta)."""
    CACHE.mkdir(exist_ok=True)
    dig = spec_digest(*spec_files)
    path = CACHE / f"{name}-{dig}.json"
    if path.exists():
        try:
            return json.loads(path.read_text())
        except Exception:
            path.unlink()
    data = producer()
    tmp = path.with_suffix(".tmp%d" % os.getpid())
    tmp.write_text(json.dumps(data))
    tmp.replace(path)
    return data


def scratch_dir(prefix="smg-") -> str:
    return tempfile.mkdtemp(prefix=prefix)
