"""C13 - RDKit export followed by import preserves structure and stereo.

Sources of graphs:
  * TLC families (MC_IsoPairs, members only): every placement of distinct ligands x both parities for
    Tetrahedral / SquarePlanar / TrigonalBipyramidal / Octahedral and for a lone-pair tetrahedral centre
    (all classes in every spelling), plus the star/ethene/two-centre templates;
  * organic corpus molecules imported from RDKit.
Each graph is built with arbitrary identifiers and shuffled insertion order, exported with _to_rdmol
and re-imported by atom-map number.  Obs_Meta (TLC) checks with the identity as witness: same atoms,
elements, bonds; every atom-centred descriptor equal up to symmetry on the same atom; with regenerated
bond orders the E/Z descriptors of isolated double bonds.  The export must not change the exported graph.
"""
from __future__ import annotations

import os
import random
import shutil
import tempfile

from . import common, model, drive, geom, rdk, iso
from .common import Reporter, run_tlc
from .model import IdMap, project, build, diff

FAMS = {"quick": {"alltet": 1, "alllp": 1, "allsp": 1, "alltbp": 3, "alloct": 12, "star5": 40, "two": 1, "star4lp": 6, "octdonor": 1, "octoct": 1},
        "thorough": {"alltet": 1, "alllp": 1, "allsp": 1, "alltbp": 1, "alloct": 1, "star5": 1, "two": 1, "star4lp": 1, "tbp": 1, "oct": 1, "octdonor": 1, "octoct": 1}}
# members built several times with different insertion orders (an export that re-orders bonds depends on it)
REPEAT = {"octdonor": 6, "octoct": 4, "two": 2}


def members(fam):
    d = tempfile.mkdtemp(prefix="smg-c13-")
    try:
        cfg = os.path.join(d, "f.cfg")
        open(cfg, "w").write(iso.cfg_text(fam, 1, with_pairs=False))
        res = run_tlc("MC_IsoPairs", cfg=cfg, workers=8, prefixes=("G",), timeout=1800, heap="6g")
    finally:
        shutil.rmtree(d, ignore_errors=True)
    common.tlc_ok(res, "MC_IsoPairs " + fam)
    out = {}
    for _, o in res.lines:
        out[o["i"]] = o["g"]
    return [out[k] for k in sorted(out)], res


def run(tier):
    rep = Reporter("C13", tier)
    model.init()
    from rdkit import Chem, RDLogger
    RDLogger.DisableLog("rdApp.*")
    Chem.SetAllowNontetrahedralChirality(True)
    from stereomolgraph.rdmol2graph import RDMol2StereoMolGraph
    rnd = random.Random(common.seed() + 13)
    recs = []
    states = gen = 0
    n_graphs = 0
    classes = set()
    for fam, step in FAMS[tier].items():
        gs, res = members(fam)
        states += res.distinct
        gen += res.generated
        fam_ids = rnd.sample(range(1, 900), 12)        # atom-map numbers must be positive and < 1000
        for gj in [x for x in gs[::step] for _ in range(REPEAT.get(fam, 1))]:
            n_graphs += 1
            # the members of one family share their identifiers (equal descriptors in other spellings are
            # exported one after the other in one process), every fourth member gets fresh ones
            ids = fam_ids if n_graphs % 4 else rnd.sample(range(1, 900), 12)
            idm = IdMap({k + 1: ids[k] for k in range(12)})
            g = iso.shuffled_build(gj, idm, rnd)
            before, _ = project(g, idm)
            det = {"family": fam, "g": gj, "idmap": idm.fwd}
            cls = gj["ast"][0][1][0] if gj["ast"] else "none"
            try:
                mol, _ = g._to_rdmol(generate_bond_orders=False)
            except Exception as e:
                rep.violation(f"C13|export-raises|{cls}|{type(e).__name__}", f"_to_rdmol raised on a {cls} graph", det)
                continue
            after, _ = project(g, idm)
            if diff(after, before):
                rep.violation(f"C13|export-modifies-graph|{cls}", "the export changed the exported graph", det)
            try:
                back = RDMol2StereoMolGraph(use_atom_map_number=True, stereo_complete=False, resonance=False)(mol)
            except Exception as e:
                rep.violation(f"C13|import-raises|{cls}|{type(e).__name__}",
                              f"re-import of an exported {cls} graph raised {type(e).__name__}", det)
                continue
            pb, _ = project(back, idm)
            classes.add((cls, tuple(gj["ast"][0][1][1]) if gj["ast"] else (), gj["ast"][0][1][2] if gj["ast"] else 0))
            recs.append({"id": len(recs) + 1, "g0": drive.gjson(before), "g1": drive.gjson(pb), "sigma": [], "mirror": False,
                         "mode": 1, "src": fam, "cls": cls, "abstract": gj})
    # organic corpus: import, export with regenerated bond orders, import again
    ident = drive.IDM
    n_mols = 0
    corpus = rdk.corpus()
    if tier == "quick":
        corpus = rdk.quick_subset(corpus, 2)
    for name, smi in corpus:
        m0 = rdk.with_hs_and_maps(smi)
        if m0 is None or m0.GetNumAtoms() > 32:
            continue
        from . import c18
        m_plain = Chem.AddHs(Chem.MolFromSmiles(smi))
        bo_ok = c18.certified(m_plain)
        for isomer in rdk.stereoisomers(m0, 2 if tier == "quick" else 6):
            try:
                g = RDMol2StereoMolGraph(use_atom_map_number=True, stereo_complete=True, resonance=False)(isomer)
            except Exception:
                continue
            n_mols += 1
            # shuffle the identifiers
            atoms = list(g.atoms)
            new = rnd.sample(range(1, 900), len(atoms))
            g = g.relabel_atoms(dict(zip(atoms, new)), copy=True)
            before, _ = project(g, ident)
            for gen_bo in ((False, True) if bo_ok else (False,)):
                try:
                    mol, _ = g._to_rdmol(generate_bond_orders=gen_bo)
                    if gen_bo:
                        mol.UpdatePropertyCache(strict=False)
                    back = RDMol2StereoMolGraph(use_atom_map_number=True, stereo_complete=True, resonance=False)(mol)
                except Exception as e:
                    rep.violation(f"C13|organic|{name}|raises:{type(e).__name__}|bond_orders={gen_bo}",
                                  f"{name}: export / re-import raised {type(e).__name__}", {"smiles": smi})
                    continue
                after, _ = project(g, ident)
                if diff(after, before):
                    rep.violation(f"C13|export-modifies-graph|organic", "the export changed the exported graph", {"name": name})
                pb, _ = project(back, ident)
                keep = []
                if gen_bo:
                    # isolated double bonds: formal double bond whose ends carry no other multiple / aromatic bond
                    km = Chem.Mol(isomer)
                    Chem.Kekulize(km, clearAromaticFlags=True)
                    relab = dict(zip(atoms, new))
                    for b in km.GetBonds():
                        if b.GetBondTypeAsDouble() != 2 or isomer.GetBondWithIdx(b.GetIdx()).GetIsAromatic():
                            continue
                        ends = (b.GetBeginAtom(), b.GetEndAtom())
                        if all(sum(1 for bb in a.GetBonds() if bb.GetBondTypeAsDouble() > 1) == 1 and
                               all(sum(1 for b3 in nb.GetBonds() if b3.GetBondTypeAsDouble() > 1) == 0
                                   for nb in a.GetNeighbors() if nb.GetIdx() not in (ends[0].GetIdx(), ends[1].GetIdx()))
                               for a in ends):
                            keep.append([relab[ends[0].GetAtomMapNum()], relab[ends[1].GetAtomMapNum()]])
                recs.append({"id": len(recs) + 1, "g0": drive.gjson(before), "g1": drive.gjson(pb), "sigma": [], "mirror": False,
                             "mode": 2 if gen_bo else 1, "keep": keep, "src": f"organic:{name}", "cls": "organic",
                             "bond_orders": gen_bo})
                if gen_bo and keep and n_mols % 3 == 0:
                    # the same molecule next to a spectator fragment with an atom outside the valence tables (PF6) or with
                    # unsaturated atoms that have no partner (the phosphines of PtCl2(PH3)2): the isolated double bonds of the
                    # organic part must still be reproduced
                    for sp_name, sp_atoms, sp_bonds in (
                            ("PF6", [(950, "P")] + [(951 + k, "F") for k in range(6)], [(950, 951 + k) for k in range(6)]),
                            ("PtCl2(PH3)2", [(940, "Pt"), (941, "Cl"), (942, "Cl"), (960, "P"), (970, "P")]
                             + [(961 + k, "H") for k in range(3)] + [(971 + k, "H") for k in range(3)],
                             [(940, 941), (940, 942), (940, 960), (940, 970)]
                             + [(960, 961 + k) for k in range(3)] + [(970, 971 + k) for k in range(3)])):
                        import stereomolgraph as _smgmod
                        SMG = _smgmod.StereoMolGraph
                        sp = SMG()
                        for a_, e_ in sp_atoms:
                            sp.add_atom(a_, e_)
                        for a_, b_ in sp_bonds:
                            sp.add_bond(a_, b_)
                        g2 = SMG.compose([g, sp])
                        b2, _ = project(g2, ident)
                        try:
                            mol2, _ = g2._to_rdmol(generate_bond_orders=True)
                            mol2.UpdatePropertyCache(strict=False)
                            back2 = RDMol2StereoMolGraph(use_atom_map_number=True, stereo_complete=True, resonance=False)(mol2)
                        except Exception as e:
                            rep.violation(f"C13|organic+spectator|{sp_name}|raises:{type(e).__name__}",
                                          f"{name} + {sp_name}: export / re-import raised {type(e).__name__}", {"smiles": smi})
                            continue
                        p2, _ = project(back2, ident)
                        recs.append({"id": len(recs) + 1, "g0": drive.gjson(b2), "g1": drive.gjson(p2), "sigma": [], "mirror": False,
                                     "mode": 2, "keep": keep, "cls": "organic", "bond_orders": True,
                                     "src": f"organic+spectator:{sp_name}:" + ",".join(sorted({"".join(sorted(
                                         str(g.get_atom_type(x)) for x in kb)) for kb in keep}))})
    ok, bad = geom.validate_meta(recs) if recs else (set(), {})
    byid = {r["id"]: r for r in recs}
    for i, v in bad.items():
        r = byid[i]
        clause = next(c for c in ("renamable", "atoms", "bonds", "stereo", "valid") if not v[c])
        if r["cls"] == "organic":
            sig = f"C13|roundtrip|{r['src']}|{clause}|bond_orders={r.get('bond_orders')}"
        else:
            lp = "lone-pair" if any(model.NOATOM in e[1][1] for e in r["abstract"]["ast"]) else "full"
            sig = f"C13|roundtrip|{r['cls']}|{lp}|{clause}"
        rep.violation(sig, f"export + import of a {r['cls']} graph ({r['src']}) does not reproduce it: clause '{clause}'",
                      {"record": {k: r[k] for k in r if k != "abstract"}, "verdict": v})
    cov = {
        "states": states, "transitions": gen, "traces_validated_against_impl": len(recs),
        "evaluations": len(recs), "distinct_nontrivial": len(classes) + n_mols,
        "rule": "family members enumerated by TLC (every ligand placement x parity per coordination class, lone-pair centres, "
                "templates) and imported corpus molecules, exported and re-imported with arbitrary identifiers; every record decided "
                "by Obs_Meta with the identity as witness; distinct_nontrivial = distinct descriptor spellings + organic stereoisomers",
        "family_graphs": n_graphs, "organic_graphs": n_mols, "records": len(recs), "accepted": len(ok),
        "samples": [{k: recs[0][k] for k in ("src", "cls", "g0")}] if recs else ["none"],
    }
    return rep.finish("exploration", cov, [
        "RDKit keeps chiral tags, permutation labels, bond stereo and atom-map numbers of an RWMol unchanged",
        "atom-map numbers are limited to 1..999 (RDKit restriction), identifiers are otherwise arbitrary and shuffled",
        "only atom-centred descriptors are compared unless bond orders are regenerated, then also isolated double bonds",
    ])
