"""Geometry helpers for the harness (never used as an oracle): random rigid
motions, idealised complexes with per-element bond lengths, and the
general-position filter (DESIGN.md section 5 rule 5)."""
from __future__ import annotations

import itertools
import json
import os
import random
import shutil
import tempfile

import numpy as np

from . import common

RADII = None


def radii():
    global RADII
    if RADII is None:
        from stereomolgraph.periodic_table import COVALENT_RADII
        RADII = dict(COVALENT_RADII)
    return RADII


def random_rotation(rnd: random.Random):
    a = np.array([[rnd.gauss(0, 1) for _ in range(3)] for _ in range(3)])
    q, r = np.linalg.qr(a)
    q = q @ np.diag(np.sign(np.diag(r)))
    if np.linalg.det(q) < 0:
        q[:, 0] = -q[:, 0]
    return q


def rigid(coords, rnd, translate=5.0):
    R = random_rotation(rnd)
    t = np.array([rnd.uniform(-translate, translate) for _ in range(3)])
    return coords @ R.T + t


def reflect(coords):
    c = coords.copy()
    c[:, 0] = -c[:, 0]
    return c


def plane_distances(p4):
    """the four apex distances of a 4-point set (apex measured from the plane of the other three)"""
    out = []
    for k in range(4):
        others = [p4[i] for i in range(4) if i != k]
        n = np.cross(others[0] - others[1], others[2] - others[1])
        nn = np.linalg.norm(n)
        if nn < 1e-9:
            out.append(0.0)
            continue
        out.append(abs(np.dot(n / nn, p4[k] - others[1])))
    return out


def subset_clear(points, margin=0.05, thr=1.0):
    """every 4-subset is clearly planar or clearly non-planar for every choice of apex."""
    for comb in itertools.combinations(range(len(points)), 4):
        d = plane_distances([points[i] for i in comb])
        if any(abs(x - thr) < margin for x in d):
            return False
        if not (all(x < thr for x in d) or all(x > thr for x in d)):
            return False
    return True


def general_position(elements, coords, margin_bond=1e-3, margin_plane=0.05):
    """harness-side precondition: no distance within margin of its bonding cutoff, and every
    planarity decision the perception could take is clear for every apex choice."""
    r = radii()
    n = len(elements)
    adj = {i: set() for i in range(n)}
    for i in range(n):
        for j in range(i + 1, n):
            d = float(np.linalg.norm(coords[i] - coords[j]))
            cut = 1.2 * (r[elements[i]] + r[elements[j]])
            if abs(d - cut) < margin_bond:
                return False, "distance on bonding threshold"
            if d < cut:
                adj[i].add(j)
                adj[j].add(i)
    for i in range(n):
        nb = sorted(adj[i])
        if 4 <= len(nb) <= 6:
            if not subset_clear([coords[k] for k in nb], margin_plane):
                return False, "ligand planarity on threshold"
        if len(nb) == 3:
            for k in nb:
                second = sorted(adj[k] - {i})
                if len(second) == 2:
                    pts = [coords[x] for x in (sorted(set(nb) - {k}) + [i, k] + second)]
                    if not subset_clear(pts, margin_plane):
                        return False, "bond planarity on threshold"
    return True, ""


def star_geometry(centre_el, lig_dirs, lig_els, rnd, noise=0.02):
    """coordinates of a star complex: ligand k along lattice direction lig_dirs[k], bond length =
    sum of covalent radii; small noise, then a random rigid motion is applied by the caller."""
    r = radii()
    pts = [np.zeros(3)]
    for d, e in zip(lig_dirs, lig_els):
        v = np.array(d, dtype=float)
        v = v / np.linalg.norm(v)
        L = r[centre_el] + r[e]
        pts.append(v * L)
    pts = np.array(pts)
    pts += np.array([[rnd.uniform(-noise, noise) for _ in range(3)] for _ in pts])
    return pts


def validate_meta(records, timeout=3000):
    """Obs_Meta (TLC): g1 must equal Relabel(g0, sigma), mirrored if asked."""
    from .common import run_tlc, MachineryError
    d = tempfile.mkdtemp(prefix="smg-meta-")
    try:
        path = os.path.join(d, "obs.ndjson")
        with open(path, "w") as f:
            for r in records:
                row = {k: r[k] for k in ("id", "g0", "g1", "sigma", "mirror")}
                row["mode"] = r.get("mode", 0)
                row["keep"] = r.get("keep", [])
                f.write(json.dumps(row, separators=(",", ":")) + "\n")
        res = run_tlc("Obs_Meta", cfg="Obs_Meta.cfg", env={"OBS_FILE": path}, workers=16, prefixes=("OK", "BAD"),
                      timeout=timeout, heap="12g")
    finally:
        shutil.rmtree(d, ignore_errors=True)
    common.tlc_ok(res, "Obs_Meta")
    ok, bad = set(), {}
    for pre, o in res.lines:
        if pre == "OK":
            ok.add(int(o))
        else:
            bad[o["id"]] = o
    if (ok | set(bad)) != {r["id"] for r in records}:
        raise MachineryError("Obs_Meta did not visit every record")
    return ok, bad
