"""Certified partners on realistic sizes (C01 C02 C03 C16): corpus molecules imported through RDKit
(10-40 atoms, all stereoisomers), partners generated AND certified by spec/MC_Transform.tla."""
from __future__ import annotations

import json
import os
import random
import shutil
import tempfile

from . import common, model, drive, rdk, iso
from .common import run_tlc, MachineryError
from .model import project, build


def collect(prop, tier, rep):
    model.init()
    from rdkit import Chem, RDLogger
    RDLogger.DisableLog("rdApp.*")
    from stereomolgraph.rdmol2graph import RDMol2StereoMolGraph
    rnd = random.Random(common.seed() + 77)
    ident = drive.IDM
    corpus = rdk.corpus()
    if tier == "quick":
        corpus = rdk.quick_subset(corpus, 4)
    recs = []
    real = {}
    for name, smi in corpus:
        m0 = rdk.with_hs_and_maps(smi)
        if m0 is None or not (4 <= m0.GetNumAtoms() <= 36):
            continue
        for isomer in rdk.stereoisomers(m0, 2 if tier == "quick" else 6):
            try:
                g = RDMol2StereoMolGraph(use_atom_map_number=False, stereo_complete=True, resonance=True)(isomer)
            except Exception:
                continue
            pj, bad = project(g, ident)
            rid = len(recs) + 1
            recs.append({"id": rid, "g": drive.gjson(pj), "name": name})
            real[rid] = g
    if not recs:
        return {"records": 0}
    d = tempfile.mkdtemp(prefix="smg-large-")
    try:
        path = os.path.join(d, "in.ndjson")
        with open(path, "w") as f:
            for r in recs:
                f.write(json.dumps({"id": r["id"], "g": r["g"]}, separators=(",", ":")) + "\n")
        cfg = os.path.join(d, "t.cfg")
        open(cfg, "w").write("SPECIFICATION Spec\nCONSTRAINT Emit\nCHECK_DEADLOCK FALSE\n")
        res = run_tlc("MC_Transform", cfg=cfg, env={"OBS_FILE": path}, workers=16, prefixes=("X",), timeout=3000, heap="12g")
    finally:
        shutil.rmtree(d, ignore_errors=True)
    common.tlc_ok(res, "MC_Transform")
    byid = {r["id"]: r for r in recs}
    seen = set()
    n = {"respell": 0, "noniso": 0, "iso_mut": 0, "sigdiff": 0, "unchanged": 0}
    for _, o in res.lines:
        k = (o["i"], o["v"])
        if k in seen:
            continue
        seen.add(k)
        if o["unchanged"]:
            n["unchanged"] += 1
            continue
        if not o["respell_ok"]:
            raise MachineryError("MC_Transform produced a respelling that its own search does not find isomorphic")
        g = real[o["i"]]
        name = byid[o["i"]]["name"]
        try:
            h = iso.shuffled_build(o["h"], ident, rnd)
        except Exception as e:
            rep.note(f"partner of {name} ({o['kind']}) could not be built: {type(e).__name__}")
            continue
        det = {"molecule": name, "kind": o["kind"], "g": byid[o["i"]]["g"], "h": drive.gjson(model.canon(o["h"]))}
        try:
            e1, e2 = (g == h), (h == g)
            hg, hh = hash(g), hash(h)
        except Exception as e:
            if prop in ("C01", "C02"):
                rep.violation(f"{prop}|large|eq-raises|{type(e).__name__}", f"== raised on {name} vs its {o['kind']} partner", det)
            continue
        exp = o["iso"]
        if o["kind"] == "respell":
            n["respell"] += 1
        elif exp:
            n["iso_mut"] += 1
        else:
            n["noniso"] += 1
        if exp and not (e1 is True and e2 is True) and prop == "C01" and o["kind"] in ("respell", "mirror-respell", "flip", "swap", "bond", "element"):
            # respell: by construction; mutations: the spec found a bijection and all parities are specified
            if o["kind"] == "respell" or _fully_specified(o["h"]):
                rep.violation(f"C01|large|eq-miss|{o['kind']}", f"{name}: unequal to its {o['kind']} partner although a bijection exists", det)
        if (not exp) and (e1 is True or e2 is True) and prop == "C02" and _fully_specified(o["h"]) and _fully_specified(byid[o["i"]]["g"]):
            rep.violation(f"C02|large|eq-lie|{o['kind']}", f"{name}: equal to its {o['kind']} partner although no bijection exists", det)
        if exp and e1 is True and hg != hh and prop == "C03" and _fully_specified(o["h"]):
            rep.violation(f"C03|large|hash-differs|{o['kind']}", f"{name}: equal graphs with different hashes", det)
        if not o["sigeq"]:
            n["sigdiff"] += 1
            if hg == hh and prop == "C16":
                rep.violation(f"C16|large|hash-collides-on-different-signature|{o['kind']}",
                              f"{name}: same hash as a partner with a different (element, neighbour elements) multiset", det)
    return {"records": len(recs), "partners": len(seen), **n, "states": res.distinct, "generated": res.generated}


def _fully_specified(gj):
    for e in gj["ast"]:
        if e[-1][2] == model.NOPAR:
            return False
    for e in gj["bst"]:
        if e[-1][2] == model.NOPAR:
            return False
    return True
