"""Binding of spec/VF2.tla (the explicit-stack VF2++ loop as a TLA+ state machine) to the real loop.

The env-guarded hook in algorithms/isomorphism.py (`_verif_tracer`, off unless STEREOMOLGRAPH_VERIF=1 and a tracer
is installed) reports one event per branch of the while loop, after the step, with the whole search state.
Two TLC passes over the recorded runs (spec/Trace_VF2.tla):

  replay (Trace_VF2.cfg): every event must be the specification's Pop / Try(v) step and the logged state must be the
         specification's successor state; Bookkeeping, PartialIso, StackShape are evaluated in every state and Exact
         (found = all label/adjacency-preserving bijections, each once) at the end for graphs of <= 6 atoms.
  run    (Run_VF2.cfg): the events are ignored; the specification's own loop runs on the recorded instance and its
         result is compared with the mappings the real enumerator yielded (any size).

What decides C05: yields that differ from the specification's result, or a conforming run whose result is not exact.
A run whose internal steps leave the specification while its result is right is NOT a violation of C05 (the
property speaks about the yielded mappings only); it is reported as a note and triggers a larger run-mode batch.
"""
from __future__ import annotations

import json
import os
import random
import shutil
import tempfile

from . import common
from .common import MachineryError

MAX_YIELDS = 800        # per recorded run
MAX_EVENTS = 4000       # per recorded run (longer runs are validated in run mode only)


class Recorder:
    def __init__(self):
        self.events = None
        self.order = None
        self.params = None

    def __call__(self, ev, u, v, outcome, node_order, params, state, stack):
        if self.events is None:
            return
        if ev == "init":
            self.order = list(node_order)
            self.params = params
        if len(self.events) > MAX_EVENTS:
            self.truncated = True
            return
        mapping, _inv, f1, e1, f2, e2 = state
        self.events.append({"ev": ev, "v": v if v is not None else 0, "out": outcome or "",
                            "state": {"mapping": sorted([a, b] for a, b in mapping.items()),
                                      "fr1": sorted(f1), "ex1": sorted(e1), "fr2": sorted(f2), "ex2": sorted(e2),
                                      "stack": [[a, sorted(c)] for a, c in stack]}})


NOATOM, NOPAR = -999999999, 2


def _dj(d):
    return [type(d).__name__, [NOATOM if a is None else a for a in d.atoms], NOPAR if d.parity is None else d.parity]


def _extras(g, stereo, changes):
    """descriptors, stereo changes and bond roles of a graph in the instance format of Trace_VF2"""
    st, sc, rl = [], [], []
    if stereo:
        st = [_dj(d) for d in g.stereo.values()]
    if changes:
        for dct in list(g.atom_stereo_changes.values()) + list(g.bond_stereo_changes.values()):
            for ch, d in dct.items():
                if d is not None:
                    sc.append([ch.value, _dj(d)])
    if hasattr(g, "get_formed_bonds"):
        for b in g.bonds:
            a, c = tuple(b)
            r = g.get_bond_attribute(a, c, "reaction")
            if r is not None:
                rl.append([sorted((a, c)), r.value])
    return st, sc, rl


def record_run(tid, g1, g2, labels=None, stereo=False, changes=False):
    """run the real enumerator to the end with the tracer installed; returns the ndjson record (or None when the
    enumerator returned before the loop: failed pre-checks, empty graphs)"""
    from stereomolgraph.algorithms import isomorphism as I
    if not I._VERIF:
        raise MachineryError("the VF2 tracer hook is disabled (STEREOMOLGRAPH_VERIF=1 not set at import time)")
    rec = Recorder()
    rec.events, rec.truncated = [], False
    old = I._verif_tracer
    I._verif_tracer = rec
    try:
        ys = list(I.vf2pp_all_isomorphisms(g1, g2, atom_labels=labels, stereo=stereo, stereo_change=changes))
    finally:
        I._verif_tracer = old
    if rec.order is None:
        return None, ys
    p = rec.params
    intern = {}

    def lab(x):
        x = tuple(int(y) for y in x) if isinstance(x, tuple) else int(x)       # == passes (element, colour) pairs
        if x not in intern:
            intern[x] = len(intern) + 1
        return intern[x]
    inst = {"n1": sorted(p.g1_nbrhd), "n2": sorted(p.g2_nbrhd),
            "adj1": [[a, sorted(n)] for a, n in sorted(p.g1_nbrhd.items())],
            "adj2": [[a, sorted(n)] for a, n in sorted(p.g2_nbrhd.items())],
            "lab1": [[a, lab(p.g1_labels[a])] for a in sorted(p.g1_nbrhd)],
            "lab2": [[a, lab(p.g2_labels[a])] for a in sorted(p.g2_nbrhd)],
            "order": rec.order, "stereo": bool(stereo), "changes": bool(changes)}
    inst["st1"], inst["sc1"], inst["rl1"] = _extras(g1, stereo, changes)
    inst["st2"], inst["sc2"], inst["rl2"] = _extras(g2, stereo, changes)
    return {"tid": tid, "inst": inst, "events": rec.events, "truncated": rec.truncated,
            "yields": [sorted([a, b] for a, b in y.items()) for y in ys]}, ys


def record_eq(tid, g1, g2):
    """g1 == g2 with the tracer installed: the loop runs with colour-refined labels and stops at the first yield, so the
    recorded events are a PREFIX of a run; returns (record or None, result of ==)"""
    from stereomolgraph.algorithms import isomorphism as I
    if not I._VERIF:
        raise MachineryError("the VF2 tracer hook is disabled (STEREOMOLGRAPH_VERIF=1 not set at import time)")
    rec = Recorder()
    rec.events, rec.truncated = [], False
    old = I._verif_tracer
    I._verif_tracer = rec
    try:
        val = (g1 == g2)
    finally:
        I._verif_tracer = old
    if rec.order is None:
        return None, val
    kind = type(g1).__name__
    stereo = kind in ("StereoMolGraph", "StereoCondensedReactionGraph")
    changes = kind == "StereoCondensedReactionGraph"
    p = rec.params
    intern = {}

    def lab(x):
        x = tuple(int(y) for y in x) if isinstance(x, tuple) else int(x)       # == passes (element, colour) pairs
        if x not in intern:
            intern[x] = len(intern) + 1
        return intern[x]
    inst = {"n1": sorted(p.g1_nbrhd), "n2": sorted(p.g2_nbrhd),
            "adj1": [[a, sorted(n)] for a, n in sorted(p.g1_nbrhd.items())],
            "adj2": [[a, sorted(n)] for a, n in sorted(p.g2_nbrhd.items())],
            "lab1": [[a, lab(p.g1_labels[a])] for a in sorted(p.g1_nbrhd)],
            "lab2": [[a, lab(p.g2_labels[a])] for a in sorted(p.g2_nbrhd)],
            "order": rec.order, "stereo": stereo, "changes": changes}
    inst["st1"], inst["sc1"], inst["rl1"] = _extras(g1, stereo, changes)
    inst["st2"], inst["sc2"], inst["rl2"] = _extras(g2, stereo, changes)
    return {"tid": tid, "inst": inst, "events": rec.events, "truncated": rec.truncated, "eq": val}, val


def collect_eq(prop, tier, rep, seed):
    """C01 / C02 through the loop model: `x == y` on family pairs with the tracer installed.  The recorded prefix must
    follow spec/VF2.tla step by step (a divergence is a note, as for C05), and the verdict of == must agree with the
    specification's own run on the recorded instance (same refined labels): True exactly when the run finds a mapping."""
    rnd = random.Random(seed * 104729 + 11)
    fams = ["smg3", "two", "twop", "twoc", "allylr", "elcyc", "elcyc", "ethene", "star4lp", "crg3", "prismr", "scrg2", "ethener", "sn2"]
    if tier != "quick":
        fams += ["star5", "lp2", "tbp", "oct", "star5r", "cuber", "prismsr", "exch"]
    pairs = family_pairs(rnd, fams, 30 if tier == "quick" else 300)
    recs, results = [], {}
    skipped = 0
    tid = 1
    for kind, x, y, _labels, _st, _ch in pairs:
        try:
            rec, val = record_eq(tid, x, y)
        except Exception:
            skipped += 1
            continue
        if rec is None:
            skipped += 1
            continue
        rec["kind"] = kind
        recs.append(rec)
        tid += 1
    if not recs:
        raise MachineryError("no == run reached the VF2 loop (hook missing?)")
    verd, res1 = replay([r for r in recs if not r["truncated"]])
    found, res2 = run_mode(recs)
    n_div = 0
    for r in recs:
        f = found.get(r["tid"])
        if f is None:
            raise MachineryError("Run_VF2 did not finish a recorded == instance")
        spec_says = bool(f["found"])
        if r["eq"] is True and not spec_says and prop == "C02":
            rep.violation("C02|eq-true-but-specification-run-finds-no-mapping|" + r["kind"].split(":")[-1],
                          "x == y is True although the specification's VF2++ run on the recorded instance (same labels, descriptors, "
                          "roles) finds no structure-preserving bijection", {"kind": r["kind"], "inst": r["inst"]})
        if r["eq"] is False and spec_says and prop == "C01":
            rep.violation("C01|eq-false-but-specification-run-finds-a-mapping|" + r["kind"].split(":")[-1],
                          "x == y is False although the specification's VF2++ run on the recorded instance finds a structure-preserving "
                          "bijection", {"kind": r["kind"], "inst": r["inst"], "mapping": f["found"][:1]})
        v = verd.get(r["tid"])
        if v and not (v["reached"] == v["len"] and v["book"] and v["piso"] and v["shape"]):
            n_div += 1
    if n_div:
        rep.note("== runs: the VF2 loop leaves spec/VF2.tla in %d of %d recorded prefixes (verdicts still compared with the "
                 "specification's own run)" % (n_div, len(recs)))
    return {"eq_runs": len(recs), "eq_true": sum(1 for r in recs if r["eq"] is True), "skipped_before_loop": skipped,
            "diverged": n_div, "states": res1.distinct + res2.distinct, "generated": res1.generated + res2.generated}


# ---------------------------------------------------------------------------------------------------------------
# drivers
# ---------------------------------------------------------------------------------------------------------------
def _mg(atoms, bonds):
    import stereomolgraph as smg
    g = smg.MolGraph()
    for a, e in atoms:
        g.add_atom(a, e)
    for a, b in bonds:
        g.add_bond(a, b)
    return g


def random_pairs(rnd, n_pairs, nmax):
    """small random molecule graphs and partners: a renamed copy (isomorphic), a copy with one bond moved, a copy
    with one element changed, an unrelated graph with the same atoms"""
    out = []
    els = ["H", "C", "O"]
    while len(out) < n_pairs:
        n = rnd.randint(1, nmax)
        ids = rnd.sample(range(0, 30), n)
        p = rnd.choice([0.25, 0.4, 0.6, 0.9])
        el = [rnd.choice(els[: rnd.choice([1, 2, 3])]) for _ in ids]
        bonds = [(ids[i], ids[j]) for i in range(n) for j in range(i + 1, n) if rnd.random() < p]
        atoms = list(zip(ids, el))
        ids2 = rnd.sample(range(100, 140), n)
        ren = dict(zip(ids, ids2))
        kind = rnd.choice(["same", "same", "same", "bond", "element", "other"])
        atoms2 = [(ren[a], e) for a, e in atoms]
        bonds2 = [(ren[a], ren[b]) for a, b in bonds]
        if kind == "bond" and bonds2 and n > 2:
            k = rnd.randrange(len(bonds2))
            a, _ = bonds2[k]
            free = [x for x in ids2 if x != a and (a, x) not in bonds2 and (x, a) not in bonds2]
            if free:
                bonds2[k] = (a, rnd.choice(free))
        elif kind == "element":
            k = rnd.randrange(n)
            atoms2[k] = (atoms2[k][0], rnd.choice(els))
        elif kind == "other":
            bonds2 = [(ids2[i], ids2[j]) for i in range(n) for j in range(i + 1, n) if rnd.random() < p]
        rnd.shuffle(atoms2)
        rnd.shuffle(bonds2)
        labels = None
        mode = rnd.choice(["default", "default", "uniform", "parity"])
        if mode == "uniform":           # caller-supplied labels: everything alike (largest search)
            labels = ({a: 1 for a in ids}, {a: 1 for a in ids2})
        elif mode == "parity":
            labels = ({a: 1 + (k % 2) for k, a in enumerate(ids)}, {ren[a]: 1 + (k % 2) for k, a in enumerate(ids)})
        out.append((kind + "/" + mode, atoms, bonds, atoms2, bonds2, labels))
    return out


SKELETONS = [("spiro23hexane", "C1CC12CCC2"), ("spiropentane", "C1CC12CC2"), ("bicyclobutane", "C1C2C1C2"),
             ("housane", "C1CC2C1C2"), ("norbornane", "C1CC2CCC1C2"), ("bicyclo222octane", "C1CC2CCC1CC2"),
             ("adamantane", "C1C2CC3CC1CC(C2)C3"), ("cubane", "C12C3C4C1C5C2C3C45"), ("prismane", "C12C3C1C4C2C34"),
             ("twistane", "C1CC2CC3CCC1C2C3"), ("bicyclo211hexane", "C1CC2CC1C2"), ("propellane", "C1C23CC13C2"),
             ("spiro33heptane", "C1CC2(C1)CCC2"), ("tricyclohexane", "C1C2C1C1CC21")]


def skeleton_pairs(rnd, per_skeleton):
    """hydrogen-free polycyclic carbon skeletons (all atoms carry one label): every atom after the first few closes a ring,
    so the candidates for it have to be adjacent to the images of SEVERAL matched neighbours; each skeleton against
    renumbered copies of itself and against a copy with one bond moved"""
    from rdkit import Chem
    out = []
    for name, smi in SKELETONS:
        m = Chem.MolFromSmiles(smi)
        if m is None:
            continue
        n = m.GetNumAtoms()
        bonds0 = [(b.GetBeginAtomIdx(), b.GetEndAtomIdx()) for b in m.GetBonds()]
        for k in range(per_skeleton):
            p1 = list(range(n)); rnd.shuffle(p1)
            p2 = list(range(n)); rnd.shuffle(p2)
            atoms = [(p1[a], "C") for a in range(n)]
            bonds = [(p1[a], p1[b]) for a, b in bonds0]
            atoms2 = [(500 + p2[a], "C") for a in range(n)]
            bonds2 = [(500 + p2[a], 500 + p2[b]) for a, b in bonds0]
            kind = "same"
            if k % 3 == 2:          # one bond moved: same degree sequence is not guaranteed, the run may end early
                i = rnd.randrange(len(bonds2))
                a, _ = bonds2[i]
                free = [x for x, _e in atoms2 if x != a and (a, x) not in bonds2 and (x, a) not in bonds2]
                if free:
                    bonds2[i] = (a, rnd.choice(free))
                    kind = "bond"
            for lst in (atoms, bonds, atoms2, bonds2):
                rnd.shuffle(lst)
            out.append((f"skeleton:{name}/{kind}", atoms, bonds, atoms2, bonds2, None))
    return out


def corpus_pairs(rnd, limit):
    """corpus molecules (explicit hydrogens, 10-60 atoms) against a renumbered copy of themselves"""
    from . import rdk
    from rdkit import Chem
    out = []
    cs = rdk.corpus()
    rnd.shuffle(cs)
    for name, smi in cs:
        if len(out) >= limit:
            break
        m = rdk.with_hs_and_maps(smi)
        if m is None or m.GetNumAtoms() > 60:
            continue
        atoms = [(a.GetIdx(), a.GetSymbol()) for a in m.GetAtoms()]
        bonds = [(b.GetBeginAtomIdx(), b.GetEndAtomIdx()) for b in m.GetBonds()]
        perm = list(range(len(atoms)))
        rnd.shuffle(perm)
        atoms2 = [(1000 + perm[a], e) for a, e in atoms]
        bonds2 = [(1000 + perm[a], 1000 + perm[b]) for a, b in bonds]
        rnd.shuffle(atoms2)
        rnd.shuffle(bonds2)
        out.append(("corpus:" + name, atoms, bonds, atoms2, bonds2, None))
    return out


def family_pairs(rnd, fams, per_family):
    """members of the MC_IsoPairs families (stereo molecules, reaction graphs with roles and stereo changes) built
    with two different identifier sets; pairs of members with the same atom count (isomorphic, mirror images,
    other ligand elements, other roles ...)"""
    from . import iso, model
    from .model import IdMap, build
    model.init()
    out = []
    for fam in fams:
        def produce(fam=fam):
            d = tempfile.mkdtemp(prefix="smg-vf2f-")
            try:
                cfg = os.path.join(d, "f.cfg")
                open(cfg, "w").write(iso.cfg_text(fam, 1, False, False))
                res = common.run_tlc("MC_IsoPairs", cfg=cfg, workers=2, prefixes=("G",), timeout=900)
            finally:
                shutil.rmtree(d, ignore_errors=True)
            common.tlc_ok(res, "MC_IsoPairs " + fam)
            return [o["g"] for _, o in res.lines]
        gs = common.cached_cases("vf2fam-" + fam, ["MC_IsoPairs.tla", "SMGFamilies.tla", "SMGGraph.tla", "SMGStereo.tla", "SMGEmit.tla",
                                                    "SMGRefine.tla", "SMGIso.tla"], produce)
        gs = [g for g in gs if g["atoms"]]
        # stereo changes with an unspecified parity are compared through Python set semantics by the code: not modelled
        def has_nopar_change(g):
            return any(dd[1][2] == NOPAR for k in ("ach", "bch") for x in g[k] for dd in x[-1])
        gs = [g for g in gs if not has_nopar_change(g)]
        if not gs:
            continue
        idA = IdMap({k + 1: v for k, v in enumerate(rnd.sample(range(0, 60), 12))})
        idB = IdMap({k + 1: v for k, v in enumerate(rnd.sample(range(100, 900), 12))})
        n = 0
        tries = 0
        while n < per_family and tries < per_family * 20:
            tries += 1
            g = rnd.choice(gs)
            h = g if rnd.random() < 0.4 else rnd.choice(gs)
            if len(g["atoms"]) != len(h["atoms"]):
                continue
            kind = g["kind"]
            try:
                x, y = build(g, idA), iso.shuffled_build(h, idB, rnd)
            except Exception:
                continue
            tag = ""
            if kind in ("SMG", "SCRG") and rnd.random() < 0.3:
                # one side loses a descriptor (a stereo centre against an unspecified one)
                side = rnd.choice([x, y])
                keys = list(side.atom_stereo) + list(side.bond_stereo)
                if keys:
                    k = rnd.choice(keys)
                    (side.delete_atom_stereo if isinstance(k, int) else side.delete_bond_stereo)(k)
                    tag = "-descr"
            out.append(("family:" + fam + tag, x, y, None, kind in ("SMG", "SCRG"), kind == "SCRG"))
            n += 1
    return out


def stereo_corpus_pairs(rnd, limit):
    """corpus molecules with stereo (imported through RDKit) against a renumbered import and against the enantiomer"""
    import stereomolgraph as smg
    from . import rdk
    out = []
    cs = [c for c in rdk.corpus() if "@" in c[1] or "/" in c[1]]
    rnd.shuffle(cs)
    for name, smi in cs:
        if len(out) >= limit:
            break
        m = rdk.with_hs_and_maps(smi)
        if m is None or m.GetNumAtoms() > 40:
            continue
        try:
            g = smg.StereoMolGraph.from_rdmol(m)
            m2, _ = rdk.renumber(m, rnd)
            h = smg.StereoMolGraph.from_rdmol(m2)
            h = h.relabel_atoms({a: a + 500 for a in h.atoms})
        except Exception:
            continue
        out.append(("stereo-corpus:" + name, g, h, None, True, False))
        out.append(("stereo-corpus-mirror:" + name, g, h.enantiomer(), None, True, False))
    return out


def record_all(pairs, start_tid=1):
    recs, skipped = [], 0
    tid = start_tid
    for item in pairs:
        if len(item) == 6 and isinstance(item[1], list):
            kind, a1, b1, a2, b2, labels = item
            g1, g2, stereo, changes = _mg(a1, b1), _mg(a2, b2), False, False
        else:
            kind, g1, g2, labels, stereo, changes = item
        rec, ys = record_run(tid, g1, g2, labels, stereo, changes)
        if rec is None or len(ys) > MAX_YIELDS:
            # (the specification's run keeps the yielded mappings in a bag: instances with thousands of automorphisms,
            # e.g. molecules with many methyl groups under element labels, are left to the direct comparisons of C05)
            skipped += 1
            continue
        rec["kind"] = kind
        recs.append(rec)
        tid += 1
    return recs, skipped


# ---------------------------------------------------------------------------------------------------------------
# validation
# ---------------------------------------------------------------------------------------------------------------
def _tlc(cfg, recs, prefixes, timeout, workers=8):
    d = tempfile.mkdtemp(prefix="smg-vf2-")
    path = os.path.join(d, "traces.ndjson")
    try:
        with open(path, "w") as f:
            for r in recs:
                f.write(json.dumps({"tid": r["tid"], "inst": r["inst"], "events": r["events"]}, separators=(",", ":")) + "\n")
        res = common.run_tlc("Trace_VF2", cfg=str(common.SPEC / cfg), env={"OBS_FILE": path}, workers=workers,
                             prefixes=prefixes, timeout=timeout, heap="6g")
        common.tlc_ok(res, "Trace_VF2/" + cfg)
        return res
    finally:
        shutil.rmtree(d, ignore_errors=True)


def _chunks(recs, budget=40000):
    """split the records so that one TLC run parses at most ~budget events"""
    out, cur, n = [], [], 0
    for r in recs:
        k = len(r["events"]) + 50
        if cur and n + k > budget:
            out.append(cur)
            cur, n = [], 0
        cur.append(r)
        n += k
    if cur:
        out.append(cur)
    return out


def _job(args):
    cfg, recs, prefix = args
    res = _tlc(cfg, recs, (prefix,), 2400, workers=4)
    return res.lines, res.distinct, res.generated


class _Stats:
    def __init__(self):
        self.distinct = self.generated = 0


def _fanout(cfg, recs, prefix):
    import multiprocessing as mp
    jobs = [(cfg, c, prefix) for c in _chunks(recs)]
    st = _Stats()
    lines = []
    if len(jobs) <= 1:
        results = [_job(j) for j in jobs]
    else:
        with mp.Pool(4) as pool:
            results = pool.map(_job, jobs, chunksize=1)
    for ls, d, g in results:
        lines += ls
        st.distinct += d
        st.generated += g
    return lines, st


def replay(recs, timeout=1500):
    """-> {tid: verdict}  verdict: dict(reached, len, ok flags, exact)"""
    lines, res = _fanout("Trace_VF2.cfg", recs, "AT")
    v = {}
    for _, o in lines:
        t = v.setdefault(o["tid"], {"reached": 0, "len": o["len"], "book": True, "piso": True, "shape": True, "order": True, "bfs": True, "exact": "skipped",
                                    "done": False})
        t["reached"] = max(t["reached"], o["l"])
        for k in ("book", "piso", "shape", "order", "bfs"):
            t[k] = t[k] and o[k]
        if o["exact"] != "skipped":
            t["exact"] = o["exact"]
        t["done"] = t["done"] or o["done"]
    return v, res


def run_mode(recs, timeout=1500):
    lines, res = _fanout("Run_VF2.cfg", [dict(r, events=[]) for r in recs], "FOUND")
    return {o["tid"]: o for _, o in lines}, res


def collect(tier, rep, seed):
    """records real runs, validates them in both modes, reports through rep; returns a coverage dict"""
    rnd = random.Random(seed * 7919 + 5)
    n_small, nmax, n_corpus = (400, 6, 6) if tier == "quick" else (3000, 7, 60)
    fams = ["smg3", "two", "twop", "twoc", "allylr", "elcyc", "elcyc", "ethene", "star4lp", "tbp", "crg3", "prismr", "scrg2", "ethener", "sn2"]
    if tier != "quick":
        fams += ["star5", "lp2", "oct", "star5r", "cuber", "prismsr", "nopar"]
    pairs = (random_pairs(rnd, n_small, nmax) + corpus_pairs(rnd, n_corpus) + skeleton_pairs(rnd, 3 if tier == "quick" else 12)
             + family_pairs(rnd, fams, 40 if tier == "quick" else 400) + stereo_corpus_pairs(rnd, 8 if tier == "quick" else 60))
    recs, skipped = record_all(pairs)
    if len(recs) < len(pairs) // 4:
        raise MachineryError(f"VF2 tracer recorded only {len(recs)} runs of {len(pairs)} (hook missing?)")
    by_tid = {r["tid"]: r for r in recs}
    replayable = [r for r in recs if not r["truncated"]]
    verd, res1 = replay(replayable)
    found, res2 = run_mode(recs)
    if set(verd) != {r["tid"] for r in replayable}:
        raise MachineryError("Trace_VF2 did not report every recorded run")
    if set(found) != set(by_tid):
        raise MachineryError("Run_VF2 did not finish every recorded instance: missing %s" % sorted(set(by_tid) - set(found))[:5])
    diverged, accepted, events = [], 0, 0
    for r in recs:
        tid = r["tid"]
        f = found[tid]
        spec_bag = sorted((json.dumps(sorted(m)), c) for m, c in f["found"])
        code_bag = {}
        for y in r["yields"]:
            k = json.dumps(sorted(y))
            code_bag[k] = code_bag.get(k, 0) + 1
        if sorted(code_bag.items()) != spec_bag or f["exact"] == "no":
            rep.violation("C05|vf2-yields-differ-from-specification-run|MG",
                          "the mappings yielded by vf2pp_all_isomorphisms differ from the result of the specification's VF2++ loop "
                          "(spec/VF2.tla) on the same instance" if f["exact"] != "no" else
                          "the specification's own run is not exact on this instance (specification error?)",
                          {"kind": r["kind"], "inst": r["inst"], "yields": r["yields"], "spec_found": f["found"], "exact": f["exact"]})
        if tid in verd:
            v = verd[tid]
            events += v["reached"]
            if v["reached"] == v["len"] and v["book"] and v["piso"] and v["shape"] and v["order"]:
                accepted += 1
                if v["exact"] == "no":
                    rep.violation("C05|vf2-conforming-run-not-exact|MG",
                                  "a run of the real loop that follows the specification step by step ends with a result that is not "
                                  "the exact set of isomorphisms", {"kind": r["kind"], "inst": r["inst"], "yields": r["yields"]})
            else:
                bad = [k for k in ("book", "piso", "shape", "order") if not v[k]]
                diverged.append((tid, v["reached"], v["len"], bad))
    if diverged:
        tid, at, ln, bad = diverged[0]
        rep.note("VF2 loop leaves spec/VF2.tla in %d of %d recorded runs (first: run %d [%s] after event %d of %d%s); the yielded "
                 "mappings agree with the specification's result, so C05 is not violated by this"
                 % (len(diverged), len(replayable), tid, by_tid[tid]["kind"], at, ln, ", invariants " + ",".join(bad) if bad else ""))
    nbfs = sum(1 for t in verd.values() if not t["bfs"])
    if nbfs:
        rep.note("%d recorded matching orders are not breadth-first component by component (affects speed only)" % nbfs)
    outcomes = {}
    kinds = {}
    for r in recs:
        k = ("stereo" if r["inst"]["stereo"] else "plain") + ("+changes" if r["inst"]["changes"] else "") + ("+roles" if r["inst"]["rl1"] else "")
        kinds[k] = kinds.get(k, 0) + 1
        for e in r["events"]:
            o = e["ev"] + (":" + e["out"] if e["out"] else "")
            outcomes[o] = outcomes.get(o, 0) + 1
    return {"runs": len(recs), "run_kinds": kinds, "event_kinds": outcomes, "skipped_before_loop": skipped, "replayed": len(replayable), "accepted": accepted, "diverged": len(diverged),
            "events": events, "states": res1.distinct + res2.distinct, "generated": res1.generated + res2.generated,
            "largest_instance": max(len(r["inst"]["n1"]) for r in recs)}


SPEC_FILES = ["VF2.tla", "MC_VF2.tla", "MC_VF2S.tla", "SMGFamilies.tla", "SMGIso.tla", "SMGGraph.tla", "SMGStereo.tla",
              "SMGFigures.tla", "SMGGroups.tla", "MC_VF2.cfg", "MC_VF2_thorough.cfg"]
S_FAMS = {"quick": ["mg3", "smg3", "two", "twop", "twoc", "allylr", "elcyc", "allylr", "ethene", "star4lp", "lp2", "tbp", "crg2", "prismr", "scrg2", "ethener", "sn2"],
          "thorough": ["mg3", "smg3", "two", "twop", "twoc", "allylr", "elcyc", "allylr", "ethene", "star4lp", "lp2", "tbp", "oct", "star5", "crg2", "crg3", "prismr",
                       "prismsr", "cuber", "scrg2", "ethener", "sn2", "star5r"]}
S_MODS = {"star5": 7, "star5r": 11, "crg3": 1, "oct": 1}


def _mc_family(fam):
    d = tempfile.mkdtemp(prefix="smg-vf2s-")
    try:
        cfg = os.path.join(d, "s.cfg")
        open(cfg, "w").write("SPECIFICATION Spec\nCONSTANTS\n  Fam = \"%s\"\n  SampleMod = %d\n  OrderMod = 3\n"
                             "INVARIANT IBookkeeping\nINVARIANT IPartialIso\nINVARIANT IStackShape\nINVARIANT IAgreesWithIsos\n"
                             "CHECK_DEADLOCK FALSE\n" % (fam, S_MODS.get(fam, 1)))
        res = common.run_tlc("MC_VF2S", cfg=cfg, workers=8, timeout=3000, heap="6g")
    finally:
        shutil.rmtree(d, ignore_errors=True)
    common.tlc_ok(res, "MC_VF2S " + fam)
    return {"fam": fam, "states": res.distinct, "generated": res.generated, "wall": round(res.wall, 1)}


def model_check(tier):
    """Statements about the specification alone (they do not depend on the code, so the verdicts are cached under the
    digest of the specification files; ./check setup warms the quick ones):
      MC_VF2 : all pairs of labelled graphs on <= NMax atoms x every matching order (x every order of taking candidates):
               bookkeeping, partial isomorphism, stack shape, exactness;
      MC_VF2S: the loop with its role / stereo / stereo-change rules on pairs of members of the case families; its result
               is the set of witnesses of SMGIso!Isos, each found once."""
    def produce():
        cfg = "MC_VF2.cfg" if tier == "quick" else "MC_VF2_thorough.cfg"
        res = common.run_tlc("MC_VF2", cfg=str(common.SPEC / cfg), workers=16, timeout=3000, heap="8g")
        common.tlc_ok(res, "MC_VF2")
        out = [{"fam": "(all graphs) " + cfg, "states": res.distinct, "generated": res.generated, "wall": round(res.wall, 1)}]
        with mp_pool(3) as pool:
            out += pool.map(_mc_family, S_FAMS[tier])
        return out
    rows = common.cached_cases("vf2-model-" + tier, SPEC_FILES, produce)
    return {"states": sum(r["states"] for r in rows), "generated": sum(r["generated"] for r in rows), "runs": rows}


def mp_pool(n):
    import multiprocessing as mp
    return mp.Pool(n)
