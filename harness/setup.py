"""setup: parse every spec module with SANY and warm the spec-only case caches."""
from __future__ import annotations

import subprocess
import sys
import time

from . import common


def sany_all() -> int:
    bad = 0
    for f in sorted(common.SPEC.glob("*.tla")):
        p = subprocess.run(["java", "-cp", "/opt/veriftools/tla/tla2tools.jar:/opt/veriftools/tla/CommunityModules-deps.jar",
                            "tla2sany.SANY", f.name], cwd=str(common.SPEC), capture_output=True, text=True)
        ok = p.returncode == 0 and "Semantic errors" not in p.stdout and "Parse Error" not in p.stdout \
            and "Fatal errors" not in p.stdout and "***Parse Error***" not in p.stdout
        print(("ok   " if ok else "FAIL ") + f.name)
        if not ok:
            bad += 1
            print(p.stdout[-1500:])
    return bad


def main() -> int:
    t0 = time.time()
    if sany_all():
        return 2
    from . import cli
    import importlib
    for prop, modname in sorted(cli.MODULES.items()):
        mod = importlib.import_module("harness." + modname)
        if hasattr(mod, "warm"):
            print("warming cache for", prop)
            mod.warm()
    print("model checking the VF2++ loop model (MC_VF2, MC_VF2S)")
    from . import vf2trace
    vf2trace.model_check("quick")
    from . import selftest
    rc = selftest.main()
    print(f"setup done in {time.time()-t0:.1f}s")
    return rc
