"""C12 - RDKit import depends on the molecule, not on its representation.

(a) label families: a centre with pairwise distinct monoatomic ligands, every permutation label
    (@/@@, @SP1-3, @TB1-20, @OH1-30) and E/Z, each in several spellings (RDKit's own random SMILES
    writer and atom renumbering keep the stereoisomer).  Atom-map numbers carry the correspondence, so
    with element-distinct ligands two imports are isomorphic iff their centre descriptors denote the same
    arrangement: Obs_Descr (TLC) decides DEq for every pair; same label <=> same arrangement.
(b) organic corpus x stereoisomers x renumbering / respelling / option combinations: Obs_IsoPair (TLC)
    decides with its own complete search whether the two imports are isomorphic; they must be, and the
    library's == / hash must agree.  Distinct stereoisomers must import non-isomorphic.
(c) from_rdmol(use_atom_map_number=True) must be the index-based import renamed (Obs_Meta, literal).
"""
from __future__ import annotations

import itertools
import json
import random

from . import common, model, drive, rdk, geom
from .common import Reporter
from .model import project

LABELS = {
    "Tetrahedral": ("C", ["F", "Cl", "Br", "I"], ["@", "@@"], 2),
    "SquarePlanar": ("Pt", ["F", "Cl", "Br", "I"], ["@SP1", "@SP2", "@SP3"], 3),
    "TrigonalBipyramidal": ("Pt", ["F", "Cl", "Br", "I", "H"], ["@TB%d" % k for k in range(1, 21)], 20),
    "Octahedral": ("Co", ["F", "Cl", "Br", "I", "H", "At"], ["@OH%d" % k for k in range(1, 31)], 30),
}


def label_smiles(centre, ligs, label):
    s = f"[{centre}{label}:1]"
    parts = [f"([{l}:{k + 2}])" for k, l in enumerate(ligs[:-1])]
    return s + "".join(parts) + f"[{ligs[-1]}:{len(ligs) + 1}]"


def run(tier):
    rep = Reporter("C12", tier)
    from rdkit import Chem, RDLogger
    RDLogger.DisableLog("rdApp.*")
    import stereomolgraph as smgmod
    from stereomolgraph.rdmol2graph import RDMol2StereoMolGraph
    SMG = smgmod.StereoMolGraph
    rnd = random.Random(common.seed() + 12)
    n_spell = 4 if tier == "quick" else 14
    ident = drive.IDM
    ps = Chem.SmilesParserParams()
    ps.removeHs = False
    # ------------------------------ (a) labels ------------------------------
    drecs = []          # descriptor pairs for Obs_Descr
    lib_pairs = 0
    label_stats = {}
    skipped = 0
    for cls, (centre, ligs, labels, nclasses) in LABELS.items():
        imports = []     # (label, smiles, graph, descriptor json)
        for lab in labels:
            base = Chem.MolFromSmiles(label_smiles(centre, ligs, lab), ps)
            if base is None:
                skipped += 1
                continue
            variants = [(Chem.MolToSmiles(base), base)]
            for _ in range(n_spell):
                m2, smi = rdk.respell(base, rnd)
                if m2 is not None:
                    variants.append((smi, m2))
                m3, order = rdk.renumber(base, rnd)
                variants.append(("renumber:" + ",".join(map(str, order)), m3))
            for smi, m in variants:
                try:
                    g = SMG.from_rdmol(m, use_atom_map_number=True)
                except Exception as e:
                    rep.violation(f"C12|import-raises|{cls}|{type(e).__name__}", f"from_rdmol raised on a {cls} complex",
                                  {"label": lab, "smiles": smi})
                    continue
                d = g.get_atom_stereo(1)
                if d is None or type(d).__name__ != cls:
                    rep.violation(f"C12|import-no-descriptor|{cls}", f"no {cls} descriptor imported for label {lab}",
                                  {"label": lab, "smiles": smi, "got": repr(d)})
                    continue
                imports.append((lab, smi, g, model.descr_json(d, ident)))
        label_stats[cls] = {"labels": len(labels), "imports": len(imports)}
        # pairs: all pairs for small classes, sampled for the large ones (every label pair at least once)
        pairs = list(itertools.combinations(range(len(imports)), 2))
        cap = 1500 if tier == "quick" else 60000
        if len(pairs) > cap:
            rnd.shuffle(pairs)
            keep = {}
            for (i, j) in pairs:
                keep.setdefault((imports[i][0], imports[j][0]), (i, j))
            pairs = list(keep.values()) + pairs[: cap - len(keep)]
        for (i, j) in pairs:
            a, b = imports[i], imports[j]
            same = a[0] == b[0]
            drecs.append({"id": len(drecs) + 1, "a": a[3], "b": b[3], "same": same, "cls": cls, "la": a[0], "lb": b[0],
                          "sa": a[1], "sb": b[1]})
            # the library's own verdict must agree with the stereoisomer identity
            lib_pairs += 1
            try:
                eq = (a[2] == b[2])
                hq = hash(a[2]) == hash(b[2])
            except Exception as e:
                rep.violation(f"C12|eq-raises|{cls}", "== raised on two imports", {"a": a[:2], "b": b[:2]})
                continue
            if eq is not same:
                rep.violation(f"C12|labels|{cls}|{'same-label-unequal' if same else 'different-labels-equal'}",
                              f"imports of {a[0]} and {b[0]} compare {'unequal' if same else 'equal'}",
                              {"a": {"label": a[0], "spelling": a[1], "descr": a[3]}, "b": {"label": b[0], "spelling": b[1], "descr": b[3]}})
            elif same and not hq:
                rep.violation(f"C12|labels|{cls}|same-label-different-hash", "equal imports have different hashes", {"a": a[:2], "b": b[:2]})
    ok_d, bad_d = rdk.validate("Obs_Descr", drecs, ("id", "a", "b", "same")) if drecs else (set(), {})
    byid = {r["id"]: r for r in drecs}
    for i, v in bad_d.items():
        r = byid[i]
        kind = "same-label-different-arrangement" if r["same"] else "different-labels-same-arrangement"
        rep.violation(f"C12|descr|{r['cls']}|{kind}",
                      f"{r['cls']}: imports of labels {r['la']} / {r['lb']}: {kind.replace('-', ' ')} (Obs_Descr)", {"record": r})
    # ------------------------------ (b) corpus ------------------------------
    irecs = []
    mrecs = []
    n_mols = 0
    options = [dict(stereo_complete=True, resonance=True, lone_pair_stereo=True)]
    if tier == "thorough":
        options += [dict(stereo_complete=False, resonance=True, lone_pair_stereo=True),
                    dict(stereo_complete=True, resonance=False, lone_pair_stereo=False)]
    n_var = 2 if tier == "quick" else 6
    corpus = rdk.corpus()
    if tier == "quick":
        corpus = rdk.quick_subset(corpus, 2)
    for name, smi in corpus:
        m0 = rdk.with_hs_and_maps(smi)
        if m0 is None or m0.GetNumAtoms() > 34:
            skipped += 1
            continue
        isomers = rdk.stereoisomers(m0, 4 if tier == "quick" else 16)
        n_mols += 1
        base_graphs = []
        for si, iso in enumerate(isomers):
            for opt in options:
                conv = RDMol2StereoMolGraph(use_atom_map_number=True, **opt)
                try:
                    g0 = conv(iso)
                except Exception as e:
                    rep.violation(f"C12|import-raises|corpus|{type(e).__name__}", f"import raised on {name}", {"smiles": Chem.MolToSmiles(iso)})
                    continue
                p0, _ = project(g0, ident)
                if opt is options[0]:
                    base_graphs.append((si, g0, p0))
                    # (c) atom-map import = index import renamed
                    try:
                        gi = RDMol2StereoMolGraph(use_atom_map_number=False, **opt)(iso)
                        pi, _ = project(gi, ident)
                        mrecs.append({"id": len(mrecs) + 1, "g0": drive.gjson(pi), "g1": drive.gjson(p0),
                                      "sigma": [[a.GetIdx(), a.GetAtomMapNum()] for a in iso.GetAtoms()], "mirror": False,
                                      "name": name})
                    except Exception as e:
                        rep.violation(f"C12|import-raises|index|{type(e).__name__}", f"index-based import raised on {name}", {})
                # delocalised ions: the partial double bonds that only appear in other resonance structures have no
                # configuration in the SMILES (the stereoisomer is not fully specified), so a re-parsed spelling may
                # legitimately import another arrangement there; only the renumbering (same bond order) is compared
                charged = any(a.GetFormalCharge() != 0 for a in iso.GetAtoms())
                ez = [b.GetIdx() for b in iso.GetBonds() if b.GetStereo() in (Chem.BondStereo.STEREOE, Chem.BondStereo.STEREOZ)]
                for v in range(n_var + (1 if ez else 0)):
                    kind = ("respell", "renumber", "shuffle-bonds")[v % 3] if v < n_var else "cis-trans-annotation"
                    try:
                        if kind == "respell":
                            m2, how = rdk.respell(iso, rnd)
                        elif kind == "renumber":
                            m2, how = rdk.renumber(iso, rnd)
                        elif kind == "cis-trans-annotation":
                            # the same configuration written with RDKit's other pair of labels (what its non-legacy stereo
                            # perception produces): STEREOZ = STEREOCIS, STEREOE = STEREOTRANS over the same stereo atoms
                            m2 = Chem.Mol(iso)
                            for bi in ez:
                                b2 = m2.GetBondWithIdx(bi)
                                b2.SetStereo(Chem.BondStereo.STEREOCIS if b2.GetStereo() == Chem.BondStereo.STEREOZ
                                             else Chem.BondStereo.STEREOTRANS)
                            how = "STEREOCIS/STEREOTRANS"
                        else:
                            m2, how = rdk.respell(rdk.renumber(iso, rnd)[0], rnd)
                        if m2 is None:
                            skipped += 1
                            continue
                        g1 = conv(m2)
                    except Exception as e:
                        rep.violation(f"C12|import-raises|variant|{type(e).__name__}", f"import raised on a {kind} variant of {name}", {"how": str(how)})
                        continue
                    p1, _ = project(g1, ident)
                    rid = len(irecs) + 1
                    irecs.append({"id": rid, "g": drive.gjson(p0), "h": drive.gjson(p1), "same": True, "name": name, "variant": kind,
                                  "how": str(how)[:200], "opt": opt})
                    try:
                        eq = g0 == g1
                        hq = hash(g0) == hash(g1)
                    except Exception as e:
                        eq, hq = f"raise:{type(e).__name__}", False
                    irecs[-1]["lib_eq"] = eq
                    irecs[-1]["lib_hash_eq"] = hq
        # distinct stereoisomers must import non-isomorphic
        canon = {si: rdk.canon_nomap(isomers[si]) for si, _, _ in base_graphs}
        for (i, gi, pi), (j, gj, pj) in itertools.combinations(base_graphs, 2):
            if canon[i] == canon[j]:
                continue        # the enumeration produced the same stereoisomer twice (meso / symmetric)
            irecs.append({"id": len(irecs) + 1, "g": drive.gjson(pi), "h": drive.gjson(pj), "same": False, "name": name,
                          "variant": f"stereoisomers {i}/{j}", "how": "", "opt": options[0]})
            try:
                irecs[-1]["lib_eq"] = (gi == gj)
            except Exception as e:
                irecs[-1]["lib_eq"] = f"raise:{type(e).__name__}"
            irecs[-1]["lib_hash_eq"] = None
    ok_i, bad_i = rdk.validate("Obs_IsoPair", irecs, ("id", "g", "h", "same")) if irecs else (set(), {})
    byid = {r["id"]: r for r in irecs}
    for r in irecs:
        spec_iso = (r["same"] if r["id"] in ok_i else (not r["same"]))
        if r["id"] in bad_i:
            what = ("the import changes with the representation" if r["same"] else "different stereoisomers import isomorphic")
            rep.violation(f"C12|corpus|{r['name']}|{r['variant'].split()[0]}|{'not-isomorphic' if r['same'] else 'isomorphic'}",
                          f"{r['name']}: {what} (decided by Obs_IsoPair)", {"record": r, "verdict": bad_i[r["id"]]})
        if r["lib_eq"] is not spec_iso:
            rep.violation(f"C12|corpus-lib-eq|{r['name']}|{'eq-miss' if spec_iso else 'eq-lie'}",
                          f"{r['name']}: library == is {r['lib_eq']} but the spec finds {'an' if spec_iso else 'no'} isomorphism",
                          {"record": r})
        elif spec_iso and r["lib_hash_eq"] is False:
            rep.violation(f"C12|corpus-lib-hash|{r['name']}", f"{r['name']}: equal imports have different hashes", {"record": r})
    ok_m, bad_m = geom.validate_meta(mrecs) if mrecs else (set(), {})
    bym = {r["id"]: r for r in mrecs}
    for i, v in bad_m.items():
        r = bym[i]
        clause = next(c for c in ("renamable", "atoms", "bonds", "stereo", "valid") if not v[c])
        if clause == "valid":
            continue       # validity of imported descriptors is not part of this clause
        rep.violation(f"C12|atom-map-import|{r['name']}|{clause}",
                      f"{r['name']}: import by atom-map number is not the index-based import renamed ({clause})", {"record": r, "verdict": v})
    cov = {
        "evaluations": len(drecs) + len(irecs) + len(mrecs), "distinct_nontrivial": n_mols + sum(len(v[2]) for v in LABELS.values()),
        "rule": "labels: every permutation label of each class x several spellings/renumberings, descriptor pairs decided by Obs_Descr; "
                "corpus: molecule x stereoisomer x variant pairs decided by Obs_IsoPair (complete search); distinct_nontrivial = "
                "corpus molecules + permutation labels",
        "descriptor_pairs": len(drecs), "descriptor_pairs_accepted": len(ok_d), "library_pairs": lib_pairs,
        "corpus_molecules": n_mols, "corpus_pairs": len(irecs), "corpus_pairs_accepted": len(ok_i),
        "atom_map_records": len(mrecs), "atom_map_accepted": len(ok_m), "label_stats": label_stats, "skipped": skipped,
        "samples": [drecs[0] if drecs else "none", {k: irecs[0][k] for k in ("name", "variant", "same")} if irecs else "none"],
    }
    return rep.finish("exploration", cov, [
        "RDKit (SMILES parser/writer, RenumberAtoms, stereoisomer enumeration) is trusted to preserve the stereoisomer",
        "atom-map numbers carry the atom correspondence between spellings",
        "isomorphism of imports is decided by spec/SMGIso (complete search), never by the library's ==",
    ])
