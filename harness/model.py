"""Binding between the abstract graphs of the spec (JSON shape of SMGEmit.GJ)
and the real classes: build, project, apply.  Public API only.

Abstract JSON graph:
  {"kind","atoms":[[id,el,[[k,v]..]]..],"bonds":[[a,b,role,[[k,v]..]]..],
   "ast":[[a,[cls,[atoms],par]]..],"bst":[[a,b,[cls,atoms,par]]..],
   "ach":[[a,[[change,[cls,atoms,par]]..]]..],"bch":[[a,b,[[change,descr]..]]..],
   "comp":[[ids]..],"valid":bool}
None atoms travel as NOATOM, parity None as NOPAR.
"""
from __future__ import annotations

import copy as _copy

NOATOM = -999999999
NOPAR = 2


def _lib():
    import stereomolgraph as s
    import stereomolgraph.stereodescriptors as sd
    from stereomolgraph.graphs.crg import Change
    return s, sd, Change


KIND_CLASS = {}
CLASS_KIND = {}
DESCR = {}
CHANGE = {}


def init():
    if KIND_CLASS:
        return
    s, sd, Change = _lib()
    KIND_CLASS.update({"MG": s.MolGraph, "SMG": s.StereoMolGraph,
                       "CRG": s.CondensedReactionGraph, "SCRG": s.StereoCondensedReactionGraph})
    CLASS_KIND.update({v: k for k, v in KIND_CLASS.items()})
    for n in ("Tetrahedral", "SquarePlanar", "TrigonalBipyramidal", "Octahedral", "PlanarBond", "AtropBond"):
        DESCR[n] = getattr(sd, n)
    CHANGE.update({"formed": Change.FORMED, "broken": Change.BROKEN, "fleeting": Change.FLEETING})


class IdMap:
    """injective map model id -> concrete id (and back)."""

    def __init__(self, fwd: dict[int, int]):
        self.fwd = dict(fwd)
        self.inv = {v: k for k, v in fwd.items()}
        assert len(self.inv) == len(self.fwd)

    def f(self, x):
        if x == NOATOM or x is None:
            return None
        return self.fwd[x]

    def b(self, x):
        if x is None:
            return NOATOM
        return self.inv.get(x, ("?", x))


IDENT = None


def mk_descr(dj, idm: IdMap):
    cls, atoms, par = dj
    init()
    return DESCR[cls](tuple(idm.f(a) for a in atoms), None if par == NOPAR else par)


def descr_json(d, idm: IdMap):
    return [type(d).__name__, [idm.b(a) for a in d.atoms], NOPAR if d.parity is None else d.parity]


def build(gj, idm: IdMap):
    """Construct a real object for an abstract graph through the public API."""
    init()
    if gj == 0 or gj is None:
        return None
    g = KIND_CLASS[gj["kind"]]()
    for a, el, at in gj["atoms"]:
        g.add_atom(idm.f(a), el, **{k: v for k, v in at})
    for a, b, role, at in gj["bonds"]:
        kw = {k: v for k, v in at}
        if role != "none":
            kw["reaction"] = CHANGE[role]
        g.add_bond(idm.f(a), idm.f(b), **kw)
    for a, dj in gj["ast"]:
        g.set_atom_stereo(mk_descr(dj, idm))
    for a, b, dj in gj["bst"]:
        g.set_bond_stereo(mk_descr(dj, idm))
    import json as _json

    def shared(chg):      # equal descriptors under two roles are ONE object (as a caller would naturally write)
        made = {}
        out = {}
        for c, dj in chg:
            k = _json.dumps(dj)
            if k not in made:
                made[k] = mk_descr(dj, idm)
            out[c] = made[k]
        return out
    for a, chg in gj["ach"]:
        g.set_atom_stereo_change(**shared(chg))
    for a, b, chg in gj["bch"]:
        g.set_bond_stereo_change(**shared(chg))
    return g


class Incoherent(Exception):
    pass


def project(g, idm: IdMap, universe=()):
    """Project all public views of a real object to the abstract JSON shape.
    Returns (graph_json, incoherences).  Views are checked against each other."""
    init()
    bad: list[str] = []
    if g is None:
        return 0, bad
    kind = CLASS_KIND.get(type(g))
    if kind is None:
        return {"kind": type(g).__name__}, ["unknown class " + type(g).__name__]
    _, _, Change = _lib()
    atoms = list(g.atoms)
    aset = set(atoms)
    if len(aset) != len(atoms):
        bad.append("atoms has duplicates")
    if any(type(a) is not int for a in atoms):
        # the harness only ever passes plain ints (or numpy integers EQUAL to them, for subgraph): the graph must keep
        # its own identifier objects, a leaked numpy scalar breaks ==, str and the RDKit export later on
        bad.append("atom identifiers are not plain ints: " + ", ".join(sorted({type(a).__name__ for a in atoms})))
    try:
        types = list(g.atom_types)
    except Exception as e:
        types = []
        bad.append(f"atom_types raises {type(e).__name__}")
    if not (len(atoms) == len(types) == g.n_atoms == len(g)):
        bad.append("atoms / atom_types / n_atoms / len disagree")
    awa = g.atoms_with_attributes
    if set(awa.keys()) != aset:
        bad.append("atoms_with_attributes keys != atoms")
    ja = []
    for i, a in enumerate(atoms):
        d = dict(awa.get(a, {}))
        el = d.pop("atom_type", None)
        if i < len(types) and el != types[i]:
            bad.append(f"atom_types not aligned with atoms at {idm.b(a)}")
        try:
            if g.get_atom_type(a) != el:
                bad.append("get_atom_type disagrees")
            if not g.has_atom(a):
                bad.append("has_atom false for listed atom")
        except Exception as e:
            bad.append(f"atom query raises {type(e).__name__}")
        try:
            eln = int(el)
        except Exception:
            eln = -1
            bad.append(f"atom_type of {idm.b(a)} is not an element: {el!r}")
        ja.append([idm.b(a), eln, sorted([k, v] for k, v in d.items())])
    bonds = list(g.bonds)
    bwa = g.bonds_with_attributes
    if set(bwa.keys()) != set(bonds):
        bad.append("bonds_with_attributes keys != bonds")
    jb = []
    adj = {a: set() for a in atoms}
    for b in bonds:
        if len(b) != 2 or not set(b) <= aset:
            bad.append(f"bond {sorted(idm.b(x) for x in b)} is not a pair of atoms of the graph")
            continue
        x, y = sorted(b, key=lambda z: idm.b(z) if not isinstance(idm.b(z), tuple) else 10**9)
        adj[x].add(y)
        adj[y].add(x)
        d = dict(bwa.get(b, {}))
        r = d.pop("reaction", None)
        role = "none"
        if r is not None:
            role = r.value if isinstance(r, Change) else f"?{r!r}"
        try:
            if not g.has_bond(x, y) or not g.has_bond(y, x):
                bad.append("has_bond false for listed bond")
        except Exception as e:
            bad.append(f"has_bond raises {type(e).__name__}")
        jb.append([idm.b(x), idm.b(y), role, sorted([k, v] for k, v in d.items())])
    # neighbour views
    nb = g.neighbors
    for k in list(nb.keys()):
        if k not in aset:
            bad.append(f"neighbors has an entry for {idm.b(k)} which is not an atom")
    for a in atoms:
        got = set(nb.get(a, ()))
        if got != adj[a]:
            bad.append(f"neighbors[{idm.b(a)}] = {sorted(map(str, (idm.b(x) for x in got)))} "
                       f"but bonds give {sorted(map(str, (idm.b(x) for x in adj[a])))}")
        try:
            bt = set(g.bonded_to(a))
            if bt != adj[a]:
                bad.append(f"bonded_to({idm.b(a)}) disagrees with bonds")
        except Exception as e:
            bad.append(f"bonded_to raises {type(e).__name__} on atom {idm.b(a)}")
    for u in universe:
        cu = idm.f(u)
        if cu not in aset:
            try:
                if g.has_atom(cu):
                    bad.append(f"has_atom true for absent {u}")
            except Exception as e:
                bad.append(f"has_atom raises {type(e).__name__}")
    # connectivity matrix aligned with atoms
    try:
        cm = g.connectivity_matrix()
        n = len(atoms)
        if cm.shape != (n, n):
            bad.append("connectivity_matrix has wrong shape")
        else:
            for i, a in enumerate(atoms):
                for j, b in enumerate(atoms):
                    if int(cm[i][j]) != (1 if b in adj[a] else 0):
                        bad.append("connectivity_matrix disagrees with bonds")
                        break
    except Exception as e:
        bad.append(f"connectivity_matrix raises {type(e).__name__}")
    # components
    comp = []
    try:
        cc = g.connected_components()
        seen = set()
        for c in cc:
            c = set(c)
            if seen & c:
                bad.append("connected_components overlap")
            seen |= c
            comp.append(sorted(idm.b(x) for x in c))
        if seen != aset:
            bad.append("connected_components do not cover the atoms")
        comp.sort()
    except Exception as e:
        bad.append(f"connected_components raises {type(e).__name__}")
    out = {"kind": kind, "atoms": sorted(ja, key=repr), "bonds": sorted(jb, key=repr),
           "ast": [], "bst": [], "ach": [], "bch": [], "comp": comp, "valid": True}
    if kind in ("SMG", "SCRG"):
        ast = g.atom_stereo
        bst = g.bond_stereo
        for a, d in ast.items():
            out["ast"].append([idm.b(a), descr_json(d, idm)])
            if a in aset:
                try:
                    got = g.get_atom_stereo(a)
                    if got is None or got.atoms != d.atoms or got.parity != d.parity:
                        bad.append("get_atom_stereo disagrees with atom_stereo")
                except Exception as e:
                    bad.append(f"get_atom_stereo raises {type(e).__name__}")
        for b, d in bst.items():
            bb = sorted((idm.b(x) for x in b), key=repr)
            if len(bb) != 2:
                bad.append("bond_stereo key is not a pair")
                continue
            out["bst"].append([bb[0], bb[1], descr_json(d, idm)])
        st = g.stereo
        if set(st.keys()) != set(ast.keys()) | set(bst.keys()):
            bad.append("stereo view != atom_stereo + bond_stereo")
        try:
            out["valid"] = bool(g.is_stereo_valid())
        except Exception as e:
            bad.append(f"is_stereo_valid raises {type(e).__name__}")
        out["ast"].sort(key=repr)
        out["bst"].sort(key=repr)
    if kind in ("CRG", "SCRG"):
        try:
            roles = {"formed": g.get_formed_bonds(), "broken": g.get_broken_bonds(),
                     "fleeting": g.get_fleeting_bonds()}
            for r, bs in roles.items():
                exp = {frozenset((idm.f(x[0]), idm.f(x[1]))) for x in jb if x[2] == r
                       and not isinstance(x[0], tuple) and not isinstance(x[1], tuple)}
                if set(bs) != exp:
                    bad.append(f"get_{r}_bonds disagrees with bond attributes")
        except Exception as e:
            bad.append(f"get_*_bonds raises {type(e).__name__}")
    if kind == "SCRG":
        for a, cd in g.atom_stereo_changes.items():
            ent = sorted([c.value, descr_json(d, idm)] for c, d in cd.items() if d is not None)
            if ent:
                out["ach"].append([idm.b(a), ent])
        for b, cd in g.bond_stereo_changes.items():
            ent = sorted([c.value, descr_json(d, idm)] for c, d in cd.items() if d is not None)
            bb = sorted((idm.b(x) for x in b), key=repr)
            if ent:
                out["bch"].append([bb[0], bb[1], ent])
        out["ach"].sort(key=repr)
        out["bch"].sort(key=repr)
    if _has_placeholder(out):
        out["valid"] = None
    # raw key sets of the container views (a key with an empty entry is normalised away above, but a rejected
    # request or a query that creates one HAS changed a public view): only compared before/after such calls
    raw = {"neighbors": sorted(repr(idm.b(k)) for k in nb.keys())}
    if kind == "SCRG":
        raw["ach"] = sorted(repr(idm.b(k)) for k in g.atom_stereo_changes.keys())
        raw["bch"] = sorted(repr(sorted(repr(idm.b(x)) for x in k)) for k in g.bond_stereo_changes.keys())
    out["raw"] = raw
    return out, bad


def _has_placeholder(gj):
    for e in gj["ast"]:
        if NOATOM in e[-1][1]:
            return True
    for e in gj["bst"]:
        if NOATOM in e[-1][1]:
            return True
    return False


def canon(gj):
    """canonical form of an abstract JSON graph as emitted by TLC (sets are
    arrays in TLC's order): sort everything the same way project() does."""
    if gj == 0 or gj is None:
        return 0
    return {
        "kind": gj["kind"],
        "atoms": sorted([[a, el, sorted(at)] for a, el, at in gj["atoms"]], key=repr),
        "bonds": sorted([[a, b, r, sorted(at)] for a, b, r, at in gj["bonds"]], key=repr),
        "ast": sorted(gj["ast"], key=repr),
        "bst": sorted(gj["bst"], key=repr),
        "ach": sorted([[a, sorted(c)] for a, c in gj["ach"]], key=repr),
        "bch": sorted([[a, b, sorted(c)] for a, b, c in gj["bch"]], key=repr),
        "comp": sorted(sorted(c) for c in gj["comp"]),
        # is_stereo_valid() is not compared when a static descriptor carries a lone-pair
        # placeholder: no property says whether a placeholder needs a bond
        "valid": None if _has_placeholder(gj) else gj["valid"],
    }


def diff(obs, exp):
    """first differing field between two canonical graphs (or None)."""
    if obs == exp:
        return None
    if obs == 0 or exp == 0:
        return "presence"
    for k in ("kind", "atoms", "bonds", "ast", "bst", "ach", "bch", "comp", "valid"):
        if obs.get(k) != exp.get(k):
            return k
    return None        # only auxiliary keys ("raw") differ
