"""code -> spec: seeded random histories on the real classes, logged call by
call (pre, op, outcome, post, result) as ndjson and validated by TLC against
spec/Trace_Edit.tla.  The driver only chooses WHAT to call; what is right is
decided by TLC."""
from __future__ import annotations

import copy
import json
import os
import random
import shutil
import tempfile
import time

from . import common, interp, model
from .model import NOATOM, NOPAR, IdMap, project
from .common import run_tlc, MachineryError

NOD = ["none", [], NOPAR]
EMPTYG = {"kind": "none", "atoms": [], "bonds": [], "ast": [], "bst": [], "ach": [], "bch": []}
ARITY = {"Tetrahedral": 5, "SquarePlanar": 5, "TrigonalBipyramidal": 6, "Octahedral": 7,
         "PlanarBond": 6, "AtropBond": 6}
PARS = {"Tetrahedral": (1, -1), "SquarePlanar": (0,), "TrigonalBipyramidal": (1, -1),
        "Octahedral": (1, -1), "PlanarBond": (0,), "AtropBond": (1, -1)}
ATOM_CLASSES = ("Tetrahedral", "SquarePlanar", "TrigonalBipyramidal", "Octahedral")
BOND_CLASSES = ("PlanarBond", "AtropBond")


class _All:
    def __contains__(self, x):
        return True

    def __getitem__(self, x):
        return x


class IdentityMap(IdMap):
    def __init__(self):
        self.fwd = _All()
        self.inv = _All()

    def f(self, x):
        return None if (x == NOATOM or x is None) else x

    def b(self, x):
        return NOATOM if x is None else x


IDM = IdentityMap()


def base_op(name, **kw):
    op = {"name": name, "a": 0, "b": 0, "e": 0, "k": "", "v": 0, "d": NOD, "db": NOD, "dl": NOD,
          "df": NOD, "m": [], "S": [], "ch": "", "tk": "", "flag": False}
    op.update(kw)
    return op


def full_ans(a):
    out = {"t": "none", "b": False, "i": 0, "s": [], "d": NOD, "c": []}
    if a:
        out.update(a)
    return out


def gjson(p):
    """projection -> the JSON graph shape Trace_Edit expects (no comp/valid)."""
    if p == 0 or p is None:
        return EMPTYG
    return {k: p[k] for k in ("kind", "atoms", "bonds", "ast", "bst", "ach", "bch")}


class Driver:
    def __init__(self, seed, kind, n_ids):
        self.rnd = random.Random(seed)
        model.init()
        r = self.rnd
        ids = set()
        while len(ids) < n_ids:
            ids.add(r.choice([r.randint(0, 40), r.randint(-2000, -1), r.randint(10**6, 2 * 10**9)]))
        ids.add(0)                              # identifier 0 is legitimate and falsy
        self.universe = sorted(ids)
        self.kind = kind
        self.pool = [model.KIND_CLASS[kind]()]
        self.records = []
        self.alias_violations = []
        self.incoherent = []
        self.rid = 0

    # ---------------------------- choosers ------------------------------
    def atom(self, g, present=0.75):
        atoms = list(g.atoms)
        if atoms and self.rnd.random() < present:
            return self.rnd.choice(atoms)
        return self.rnd.choice(self.universe)

    def bond_pair(self, g, present=0.6):
        bonds = list(g.bonds)
        if bonds and self.rnd.random() < present:
            b = sorted(self.rnd.choice(bonds))
            if len(b) == 2:
                return b[0], b[1]
        return self.atom(g), self.atom(g)

    def descr(self, g, atom_centred=True):
        r = self.rnd
        cls = r.choice(ATOM_CLASSES if atom_centred else BOND_CLASSES)
        n = ARITY[cls]

        def lig(around):
            x = r.random()
            nb = []
            try:
                nb = list(g.bonded_to(around)) if g.has_atom(around) else []
            except Exception:
                nb = []
            if nb and x < 0.7:
                return r.choice(nb)
            if x < 0.8:
                return NOATOM
            return self.atom(g, 0.8)
        def ligs_of(around, k, exclude=()):
            """k ligand slots: mostly distinct bonded neighbours, padded with placeholders"""
            if r.random() < 0.2:
                return [lig(around) for _ in range(k)]
            try:
                nb = [x for x in g.bonded_to(around) if x not in exclude] if g.has_atom(around) else []
            except Exception:
                nb = []
            r.shuffle(nb)
            out = nb[:k]
            while len(out) < k:
                out.append(NOATOM)
            r.shuffle(out)
            return out
        if atom_centred:
            atoms_ = list(g.atoms)
            # prefer centres whose degree fits the class
            fit = [x for x in atoms_ if n - 3 <= len(g.bonded_to(x)) <= n - 1] if atoms_ else []
            c = r.choice(fit) if fit and r.random() < 0.8 else self.atom(g, 0.85)
            atoms = [c] + ligs_of(c, n - 1)
        else:
            a, b = self.bond_pair(g, 0.8)
            atoms = ligs_of(a, 2, (b,)) + [a, b] + ligs_of(b, 2, (a,))
        par = r.choice(PARS[cls] + ((NOPAR,) if r.random() < 0.15 else ()))
        return [cls, atoms, par]

    def random_op(self, g):
        r = self.rnd
        kind = model.CLASS_KIND[type(g)]
        stereo = kind in ("SMG", "SCRG")
        roles = kind in ("CRG", "SCRG")
        changes = kind == "SCRG"
        n_atoms = len(g.atoms)
        table = [("add_atom", 14 if n_atoms < 14 else 3), ("remove_atom", 2 if n_atoms > 6 else 1), ("add_bond", 14),
                 ("remove_bond", 2), ("set_atom_attr", 3), ("del_atom_attr", 1.5), ("set_bond_attr", 3),
                 ("del_bond_attr", 1.5), ("relabel_inplace", 1.0),
                 ("has_atom", .5), ("has_bond", .5), ("n_atoms", .2), ("get_atom_type", .7), ("get_atom_attr", .7),
                 ("get_bond_attr", .7), ("bonded_to", .7), ("component_of", .5), ("n_components", .3), ("eq_self", .3), ("eq_copy", .3),
                 ("hash", .3), ("str", .2), ("to_json", .2),
                 ("copy", .5), ("copy_ctor", .6), ("relabel_copy", .8), ("subgraph", 1.0), ("compose", .8),
                 ("compose_components", .4), ("json_roundtrip", .4)]
        if roles:
            table += [("add_formed_bond", 3), ("add_broken_bond", 3), ("add_fleeting_bond", 2), ("add_bond_badrole", .3), ("add_formed_badrole", .3), ("add_broken_badrole", .2), ("add_fleeting_badrole", .2),
                      ("set_bond_badrole", .3), ("set_bond_role", 1.5), ("del_bond_role", .7), ("reverse", .5),
                      ("role_bonds", .6), ("active_atoms", .6),
                      ("reactant", .5), ("product", .5)]
        if stereo:
            table += [("set_atom_stereo", 6), ("del_atom_stereo", 1), ("set_bond_stereo", 4), ("del_bond_stereo", .7),
                      ("get_atom_stereo", .7), ("get_bond_stereo", .7), ("is_stereo_valid", .3), ("enantiomer", .6)]
        if changes:
            table += [("set_atom_stereo_change", 3), ("set_bond_stereo_change", 2), ("del_atom_stereo_change", .8),
                      ("del_bond_stereo_change", .6), ("get_atom_stereo_change", .5), ("get_bond_stereo_change", .5)]
        names, weights = zip(*table)
        n = r.choices(names, weights)[0]
        k_atom = r.choice(["q", "w", "z"])
        v = r.randint(-5, 50)
        if n == "add_atom":
            e = r.randint(1, 118) if r.random() > 0.04 else r.choice([0, 119, -1])
            kk = k_atom if r.random() < 0.3 else ""
            return base_op(n, a=self.atom(g, 0.08), e=e, k=kk, v=v)
        if n == "remove_atom" and stereo and r.random() < 0.5:
            # prefer an atom that some descriptor mentions (as centre or as ligand)
            mentioned = set()
            for d in list(g.atom_stereo.values()) + list(g.bond_stereo.values()):
                mentioned.update(a for a in d.atoms if a is not None)
            if changes:
                for cd in list(g.atom_stereo_changes.values()) + list(g.bond_stereo_changes.values()):
                    for d in cd.values():
                        if d is not None:
                            mentioned.update(a for a in d.atoms if a is not None)
            mentioned = [a for a in mentioned if g.has_atom(a)]
            if mentioned:
                return base_op(n, a=r.choice(sorted(mentioned)))
        if n in ("remove_atom", "has_atom", "get_atom_type", "bonded_to", "component_of", "get_atom_stereo",
                 "del_atom_stereo", "get_atom_stereo_change"):
            return base_op(n, a=self.atom(g))
        if n == "role_bonds":
            return base_op(n, ch=r.choice(["formed", "broken", "fleeting"]), flag=r.random() < 0.4)
        if n == "active_atoms":
            return base_op(n, flag=r.random() < 0.5)
        if n == "add_bond":
            a, b = self.bond_pair(g, 0.05)
            ch = "none"
            if roles and r.random() < 0.3:
                ch = r.choice(["formed", "broken", "fleeting"])
            kk = k_atom if r.random() < 0.3 else ""
            return base_op(n, a=a, b=b, k=kk, v=v, ch=ch)
        if n in ("add_formed_bond", "add_broken_bond", "add_fleeting_bond"):
            a, b = self.bond_pair(g, 0.1)
            return base_op(n, a=a, b=b)
        if n in ("remove_bond", "has_bond", "add_bond_badrole", "set_bond_badrole", "add_formed_badrole", "add_broken_badrole", "add_fleeting_badrole", "del_bond_role", "get_bond_stereo",
                 "del_bond_stereo", "get_bond_stereo_change"):
            a, b = self.bond_pair(g)
            return base_op(n, a=a, b=b)
        if n == "set_atom_attr":
            if r.random() < 0.25:
                e = r.randint(1, 118) if r.random() > 0.1 else r.choice([0, 119])
                return base_op(n, a=self.atom(g), k="atom_type", v=e)
            return base_op(n, a=self.atom(g), k=k_atom, v=v)
        if n in ("del_atom_attr", "get_atom_attr"):
            return base_op(n, a=self.atom(g), k=r.choice(["q", "w", "z", "atom_type"]))
        if n in ("set_bond_attr", "del_bond_attr", "get_bond_attr"):
            a, b = self.bond_pair(g)
            return base_op(n, a=a, b=b, k=k_atom, v=v)
        if n == "set_bond_role":
            a, b = self.bond_pair(g)
            return base_op(n, a=a, b=b, ch=r.choice(["formed", "broken", "fleeting"]))
        if n == "set_atom_stereo":
            return base_op(n, d=self.descr(g, True))
        if n == "set_bond_stereo":
            return base_op(n, d=self.descr(g, False))
        if n in ("set_atom_stereo_change", "set_bond_stereo_change"):
            ac = n == "set_atom_stereo_change"
            d0 = self.descr(g, ac)
            ds = {}
            for f in ("db", "dl", "df"):
                x = r.random()
                if x < 0.45:
                    d = [d0[0], list(d0[1]), d0[2]]
                    if x < 0.25:      # same centre, other arrangement / class
                        d2 = self.descr(g, ac)
                        if ac:
                            d2[1][0] = d0[1][0]
                        else:
                            d2[1][2], d2[1][3] = d0[1][2], d0[1][3]
                        d = d2
                    ds[f] = d
                elif x < 0.5:
                    ds[f] = self.descr(g, ac)   # possibly another centre -> must be refused
            return base_op(n, **ds)
        if n == "del_atom_stereo_change":
            return base_op(n, a=self.atom(g), ch=r.choice(["", "broken", "fleeting", "formed"]))
        if n == "del_bond_stereo_change":
            a, b = self.bond_pair(g)
            return base_op(n, a=a, b=b, ch=r.choice(["", "broken", "fleeting", "formed"]))
        if n in ("relabel_inplace", "relabel_copy"):
            atoms = list(g.atoms)
            r.shuffle(atoms)
            k = r.randint(0, len(atoms))
            src = atoms[:k]
            fresh = [u for u in self.universe if u not in set(atoms)]
            r.shuffle(fresh)
            tgt_pool = src + fresh[: max(0, k)]
            r.shuffle(tgt_pool)
            tgt = tgt_pool[:k]
            m = [[s, t] for s, t in zip(src, tgt)]
            if fresh and r.random() < 0.2:
                m.append([fresh[-1], fresh[-1]])    # a key that is not an atom
            return base_op(n, m=m)
        if n == "subgraph":
            atoms = list(g.atoms)
            S = [a for a in atoms if r.random() < 0.6]
            if r.random() < 0.1:
                S.append(self.atom(g, 0.0))
            return base_op(n, S=sorted(set(S)))
        if n == "copy_ctor":
            return base_op(n, tk=r.choice(["MG", "SMG", "CRG", "SCRG"]))
        if n == "compose":
            return base_op(n, tk=kind)
        if n in ("reactant", "product"):
            return base_op(n, flag=r.random() < 0.5)
        return base_op(n)

    # ---------------------------- stepping ------------------------------
    def step(self):
        r = self.rnd
        gi = r.randrange(len(self.pool))
        g = self.pool[gi]
        op = self.random_op(g)
        other = None
        oi = None
        if op["name"] == "compose":
            oi = r.randrange(len(self.pool))
            other = self.pool[oi]
            op["tk"] = model.CLASS_KIND[type(g)]
        before = [project(x, IDM) for x in self.pool]
        ik = r.choice(interp.ITER_KINDS + ("gen",)) if op["name"] == "subgraph" else "list"
        out, ans, res = interp.apply(g, op, IDM, other=other, swap=r.random() < 0.5, iter_kind=ik)
        after = [project(x, IDM) for x in self.pool]
        self.rid += 1
        rec = {"id": self.rid, "pre": gjson(before[gi][0]), "h": gjson(before[oi][0]) if oi is not None else EMPTYG,
               "op": op, "out": out.split(":")[0], "exc": out, "ans": full_ans(ans), "post": gjson(after[gi][0]),
               "res": EMPTYG, "iter_kind": ik}
        bad = list(after[gi][1])
        if res is not None:
            pr, badr = project(res, IDM)
            rec["res"] = gjson(pr)
            bad += ["result: " + b for b in badr]
        if out.split(":")[0] in ("raise", "ans") and before[gi][0] != 0 and before[gi][0].get("raw") != after[gi][0].get("raw"):
            bad.append("a rejected request / query changed the key set of a container view")
        if bad:
            rec["incoherent"] = bad
            self.incoherent.append(rec)
        # untouched objects must not move (snapshot comparison, no semantics)
        for i, (b4, af) in enumerate(zip(before, after)):
            if i != gi and b4[0] != af[0] and self.pool[i] is not g:
                self.alias_violations.append({"rec": rec, "other_before": b4[0], "other_after": af[0]})
        self.records.append(rec)
        if res is not None and type(res) in model.CLASS_KIND:
            if len(self.pool) < 3:
                self.pool.append(res)
            else:
                j = r.randrange(len(self.pool))
                self.pool[j] = res
        # keep the receiver out of a dead end
        if len(self.pool[gi].atoms) > 22 and r.random() < 0.3:
            self.pool[gi] = model.KIND_CLASS[self.kind]()


def generate(seed, n_steps, kinds=("MG", "SMG", "CRG", "SCRG"), hist_len=120):
    recs, alias, incoh = [], [], []
    rnd = random.Random(seed)
    rid = 0
    while len(recs) < n_steps:
        kind = kinds[len(recs) // hist_len % len(kinds)]
        d = Driver(rnd.randrange(2**31), kind, rnd.randint(10, 30))
        d.rid = rid
        for _ in range(min(hist_len, n_steps - len(recs))):
            d.step()
        rid = d.rid
        recs += d.records
        alias += d.alias_violations
        incoh += d.incoherent
    return recs, alias, incoh


class _Agg:
    def __init__(self):
        self.distinct = self.generated = 0
        self.wall = 0.0


def _validate_chunk(args):
    records, workers, timeout = args
    d = tempfile.mkdtemp(prefix="smg-trace-")
    try:
        path = os.path.join(d, "trace.ndjson")
        with open(path, "w") as f:
            for r in records:
                slim = {k: r[k] for k in ("id", "pre", "h", "op", "out", "ans", "post", "res")}
                f.write(json.dumps(slim, separators=(",", ":")) + "\n")
        res = run_tlc("Trace_Edit", cfg="Trace_Edit.cfg", env={"OBS_FILE": path}, workers=workers,
                      prefixes=("OK", "BAD"), timeout=timeout, heap="8g")
    finally:
        shutil.rmtree(d, ignore_errors=True)
    common.tlc_ok(res, "Trace_Edit")
    return res.lines, res.distinct, res.generated, res.wall


def validate(records, workers=16, timeout=3000, chunk=15000):
    """TLC validates every record; returns (verdicts by id, stats).  Large record sets are validated in chunks (one TLC
    run parses its whole file into memory), two runs at a time."""
    records = list(records)
    chunks = [records[k:k + chunk] for k in range(0, len(records), chunk)] or [[]]
    agg = _Agg()
    lines = []
    if len(chunks) == 1:
        results = [_validate_chunk((chunks[0], workers, timeout))]
    else:
        import multiprocessing as mp
        with mp.Pool(2) as pool:
            results = pool.map(_validate_chunk, [(c, max(4, workers // 2), timeout) for c in chunks], chunksize=1)
    for ls, d_, g_, w_ in results:
        lines += ls
        agg.distinct += d_
        agg.generated += g_
        agg.wall += w_
    res = agg
    ok, bad = set(), {}
    for pre, o in lines:
        if pre == "OK":
            ok.add(int(o))
        else:
            bad[o["id"]] = o
    ids = {r["id"] for r in records}
    if (ok | set(bad)) != ids:
        raise MachineryError(f"Trace_Edit visited {len(ok | set(bad))} of {len(ids)} records")
    return ok, bad, res
