from . import isochecks


def run(tier):
    return isochecks.run("C06", tier)
