"""Out-of-tree recorder (pytest plugin): wraps the public methods of the four graph classes while the
repository's OWN test-suite runs and logs every outermost public call in the op vocabulary of
spec/SMGEdit.tla as one ndjson record (pre, op, outcome, post, result) for Trace_Edit.

Usage:  VERIF_RECORD_FILE=<path> PYTHONPATH=/verif python -m pytest -p harness.recorder_plugin ...
Nothing in /repo is touched; calls whose arguments do not fit the op vocabulary are counted, not logged.
"""
from __future__ import annotations

import functools
import json
import os
import threading

_state = threading.local()
_out = None
_count = {"logged": 0, "skipped": 0}
_values = {}
_records = []


def _val_id(v):
    """free attribute values are interned to small integers (the spec only compares them for equality)"""
    if isinstance(v, bool):
        v = ("bool", v)
    try:
        key = repr(v)
    except Exception:
        key = str(id(v))
    if key not in _values:
        _values[key] = len(_values) + 1
    return _values[key]


def _install():
    from harness import model, drive
    from harness.model import project, NOATOM, NOPAR
    import stereomolgraph as smg
    from stereomolgraph.periodic_table import PERIODIC_TABLE
    from stereomolgraph.graphs.crg import Change
    model.init()
    IDM = drive.IDM
    classes = [smg.MolGraph, smg.StereoMolGraph, smg.CondensedReactionGraph, smg.StereoCondensedReactionGraph]
    INT = lambda x: isinstance(x, int) and not isinstance(x, bool) and abs(x) < 2**31 - 2

    def el(x):
        try:
            return int(PERIODIC_TABLE[x])
        except Exception:
            return 0

    def dj(d):
        if d is None:
            return drive.NOD
        return model.descr_json(d, IDM)

    def proj_attr_values(p):
        """projection with interned attribute values"""
        if p == 0:
            return drive.EMPTYG
        q = drive.gjson(p)
        q = json.loads(json.dumps(q, default=str))
        return q

    def safe_project(obj):
        _state.off = True
        try:
            p, bad = project(obj, IDM)
        finally:
            _state.off = False
        if p == 0:
            return drive.EMPTYG, bad
        g = drive.gjson(p)
        g = dict(g)
        g["atoms"] = [[a, e, sorted([k, _val_id(v)] for k, v in at)] for a, e, at in g["atoms"]]
        g["bonds"] = [[a, b, r, sorted([k, _val_id(v)] for k, v in at)] for a, b, r, at in g["bonds"]]
        return g, bad

    def one_attr(kw, allow_reaction=False):
        kw = dict(kw)
        ch = "none"
        if allow_reaction and "reaction" in kw:
            r = kw.pop("reaction")
            if isinstance(r, Change):
                ch = r.value
            else:
                return None
        if len(kw) > 1:
            return None
        if kw:
            k, v = next(iter(kw.items()))
            if k in ("atom_type", "reaction"):
                return None
            return k, _val_id(v), ch
        return "", 0, ch

    def to_op(name, self, args, kw):
        B = drive.base_op
        try:
            if name == "add_atom":
                atom = args[0] if args else kw.pop("atom")
                at = args[1] if len(args) > 1 else kw.pop("atom_type")
                oa = one_attr(kw)
                if oa is None or not INT(atom):
                    return None
                e = el(at)
                return B("add_atom", a=atom, e=e if e else 0, k=oa[0], v=oa[1])
            if name == "remove_atom":
                return B(name, a=args[0]) if INT(args[0]) else None
            if name in ("add_bond", "add_formed_bond", "add_broken_bond", "add_fleeting_bond", "remove_bond", "has_bond"):
                a, b = args[0], args[1]
                if not (INT(a) and INT(b)):
                    return None
                if name == "add_bond":
                    oa = one_attr(kw, allow_reaction=hasattr(self, "get_formed_bonds"))
                    if oa is None:
                        return None
                    return B(name, a=a, b=b, k=oa[0], v=oa[1], ch=oa[2])
                if kw:
                    return None
                return B(name, a=a, b=b)
            if name in ("has_atom", "bonded_to", "get_atom_type"):
                return B(name, a=args[0]) if INT(args[0]) else None
            if name == "set_atom_attribute":
                a, k, v = args
                if not INT(a):
                    return None
                if k == "atom_type":
                    return B("set_atom_attr", a=a, k=k, v=el(v))
                return B("set_atom_attr", a=a, k=k, v=_val_id(v))
            if name == "delete_atom_attribute":
                return B("del_atom_attr", a=args[0], k=args[1]) if INT(args[0]) else None
            if name == "set_bond_attribute":
                a, b, k, v = args
                if k == "reaction":
                    if hasattr(self, "get_formed_bonds"):
                        return B("set_bond_role", a=a, b=b, ch=v.value) if isinstance(v, Change) else B("set_bond_badrole", a=a, b=b)
                    return None
                return B("set_bond_attr", a=a, b=b, k=k, v=_val_id(v))
            if name == "delete_bond_attribute":
                a, b, k = args
                if k == "reaction":
                    return B("del_bond_role", a=a, b=b) if hasattr(self, "get_formed_bonds") else None
                return B("del_bond_attr", a=a, b=b, k=k)
            if name in ("set_atom_stereo", "set_bond_stereo"):
                return B(name, d=dj(args[0] if args else next(iter(kw.values()))))
            if name == "delete_atom_stereo":
                return B("del_atom_stereo", a=args[0])
            if name == "delete_bond_stereo":
                a, b = tuple(args[0])
                return B("del_bond_stereo", a=a, b=b)
            if name in ("set_atom_stereo_change", "set_bond_stereo_change"):
                return B(name, db=dj(kw.get("broken")), dl=dj(kw.get("fleeting")), df=dj(kw.get("formed")))
            if name == "relabel_atoms":
                mapping = args[0] if args else kw["mapping"]
                copy = args[1] if len(args) > 1 else kw.get("copy", True)
                if not all(INT(k) and INT(v) for k, v in mapping.items()):
                    return None
                return B("relabel_copy" if copy else "relabel_inplace", m=[[k, v] for k, v in mapping.items()])
            if name == "subgraph":
                S = list(args[0])
                args[0:1] = [S]
                return B("subgraph", S=sorted(set(S))) if all(INT(x) for x in S) else None
            if name in ("copy", "enantiomer"):
                return B(name)
            if name == "reverse_reaction":
                return B("reverse")
            if name in ("reactant", "product"):
                keep = args[0] if args else kw.get("keep_attributes", True)
                return B(name, flag=bool(keep))
        except Exception:
            return None
        return None

    NAMES = ["add_atom", "remove_atom", "add_bond", "add_formed_bond", "add_broken_bond", "add_fleeting_bond", "remove_bond",
             "has_atom", "has_bond", "bonded_to", "get_atom_type", "set_atom_attribute", "delete_atom_attribute",
             "set_bond_attribute", "delete_bond_attribute", "set_atom_stereo", "set_bond_stereo", "delete_atom_stereo",
             "delete_bond_stereo", "set_atom_stereo_change", "set_bond_stereo_change", "relabel_atoms", "subgraph", "copy",
             "enantiomer", "reverse_reaction", "reactant", "product"]

    def wrap(cls, name, fn):
        @functools.wraps(fn)
        def wrapper(self, *args, **kw):
            if getattr(_state, "off", False) or getattr(_state, "depth", 0) > 0 or type(self) not in model.CLASS_KIND:
                return fn(self, *args, **kw)
            args = list(args)
            op = to_op(name, self, args, dict(kw))
            if op is None:
                _count["skipped"] += 1
                return fn(self, *args, **kw)
            pre, _ = safe_project(self)
            _state.depth = 1
            exc = None
            res = None
            try:
                res = fn(self, *args, **kw)
                return res
            except Exception as e:
                exc = e
                raise
            finally:
                _state.depth = 0
                try:
                    post, bad = safe_project(self)
                    rec = {"id": 0, "pre": pre, "h": drive.EMPTYG, "op": op, "post": post, "res": drive.EMPTYG,
                           "ans": drive.full_ans(None), "test": os.environ.get("PYTEST_CURRENT_TEST", "")[:160]}
                    if exc is not None:
                        rec["out"], rec["exc"] = "raise", "raise:" + type(exc).__name__
                    elif op["name"] in ("has_atom", "has_bond", "bonded_to", "get_atom_type"):
                        from harness import interp
                        rec["out"], rec["exc"] = "ans", "ans"
                        val = res
                        if op["name"] == "bonded_to":
                            val = frozenset(res)
                        rec["ans"] = drive.full_ans(interp.norm_answer(op["name"], val, IDM))
                    else:
                        rec["out"], rec["exc"] = "ok", "ok"
                        if res is not None and type(res) in model.CLASS_KIND and res is not self:
                            rp, badr = safe_project(res)
                            rec["res"] = rp
                            bad = list(bad) + ["result: " + b for b in badr]
                    if bad:
                        rec["incoherent"] = bad
                    _count["logged"] += 1
                    rec["id"] = _count["logged"]
                    _records.append(json.dumps(rec, separators=(",", ":"), default=str))
                except Exception as e:      # the recorder must never change the outcome of a test
                    _count["skipped"] += 1
        return wrapper

    for cls in classes:
        for name in NAMES:
            if name in cls.__dict__:
                setattr(cls, name, wrap(cls, name, cls.__dict__[name]))


def pytest_configure(config):
    import builtins
    path = os.environ.get("VERIF_RECORD_FILE")
    if not path or getattr(builtins, "_smg_recorder_installed", False):
        return
    builtins._smg_recorder_installed = True
    _install()


def pytest_unconfigure(config):
    path = os.environ.get("VERIF_RECORD_FILE")
    if path and _records:
        with open(path, "a") as f:
            f.write("\n".join(_records) + "\n")
        _records.clear()
