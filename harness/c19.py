from . import edit
def run(tier): return edit.run("C19", tier)
