"""Reaction graphs that colour refinement cannot tell apart (spec/MC_WLHard.tla): on regular skeletons of identical
atoms TLC enumerates one representative per orbit of bond-role labelings and the bag of final colours of the 1-WL design
model.  Representatives with equal bags are different reactions (no skeleton automorphism carries one onto the other)
whose atoms all look alike to the refinement - equality, hashing-consistency and enumeration must be decided by the
search itself.  Cases depend on the specification only and are cached."""
from __future__ import annotations

import collections
import json
import os
import random
import shutil
import tempfile

from . import common, model, iso
from .model import IdMap, build

SPEC_FILES = ["MC_WLHard.tla", "SMGRefine.tla", "SMGGraph.tla", "SMGEmit.tla", "SMGEdit.tla", "SMGStereo.tla", "SMGJson.tla"]
# (skeleton, roles, kmin, kmax)
CONFIGS = {
    "quick": [("prism", ("formed", "broken"), 1, 9), ("k4", ("formed", "broken", "fleeting"), 1, 6), ("c6", ("formed", "broken"), 1, 6),
              ("cube", ("formed", "broken"), 6, 6)],
    "thorough": [("prism", ("formed", "broken"), 1, 9), ("prism", ("formed", "broken", "fleeting"), 1, 6),
                 ("k4", ("formed", "broken", "fleeting"), 1, 6), ("c6", ("formed", "broken", "fleeting"), 1, 6),
                 ("k33", ("formed", "broken"), 1, 9), ("cube", ("formed", "broken"), 6, 6), ("cube", ("formed", "broken"), 2, 5),
                 ("cube", ("formed", "broken", "fleeting"), 6, 6)],
}
PAIR_CAP = {"quick": 700, "thorough": 20000}


def cases(skel, roles, kmin, kmax):
    name = "wlhard-%s-%s-%d-%d" % (skel, "".join(r[0:2] for r in roles), kmin, kmax)

    def produce():
        d = tempfile.mkdtemp(prefix="smg-wl-")
        rows = []

        def on_line(pre, obj):
            js, _, bag = obj.partition("|BAG|")
            r = json.loads(js)
            r["bag"] = bag
            rows.append(r)
        try:
            cfg = os.path.join(d, "w.cfg")
            open(cfg, "w").write("SPECIFICATION Spec\nCONSTANTS\n  Skel = \"%s\"\n  RolesUsed = {%s}\n  KMin = %d\n  KMax = %d\n"
                                 "  Kind = \"CRG\"\nCONSTRAINT Emit\nCHECK_DEADLOCK FALSE\n"
                                 % (skel, ", ".join('"%s"' % r for r in roles), kmin, kmax))
            res = common.run_tlc("MC_WLHard", cfg=cfg, workers=16, prefixes=("W",), timeout=3000, heap="8g", on_line=on_line)
        finally:
            shutil.rmtree(d, ignore_errors=True)
        common.tlc_ok(res, "MC_WLHard " + name)
        seen, out = set(), []
        for r in rows:
            if r["code"] not in seen:
                seen.add(r["code"])
                out.append(r)
        # group by bag, keep only what the harness needs
        by = collections.defaultdict(list)
        for r in out:
            by[r["bag"]].append(r)
        groups = [[{"code": r["code"], "g": r["g"], "alt": r["alt"]} for r in v] for v in by.values()]
        return {"representatives": len(out), "states": res.distinct, "generated": res.generated, "groups": groups}
    return common.cached_cases(name, SPEC_FILES, produce)


def warm():
    for c in CONFIGS["quick"]:
        cases(*c)


def _as_kind(gj, kind):
    return gj if kind == "CRG" else {**gj, "kind": kind}


def collect(prop, tier, rep):
    """C01: representative vs automorphic image equal;  C02: WL-equivalent different representatives unequal;
    C03: equal hash for the automorphic image;  C05: enumeration empty / non-empty and every yielded mapping role-preserving"""
    model.init()
    from stereomolgraph.algorithms.isomorphism import vf2pp_all_isomorphisms
    rnd = random.Random(common.seed() * 31 + 7)
    tot = {"representatives": 0, "hard_pairs": 0, "auto_pairs": 0, "states": 0, "generated": 0, "configs": []}
    for cfgk in CONFIGS[tier]:
        data = cases(*cfgk)
        tot["states"] += data["states"]
        tot["generated"] += data["generated"]
        tot["representatives"] += data["representatives"]
        tag = "%s/%s/%d-%d" % (cfgk[0], "+".join(cfgk[1]), cfgk[2], cfgk[3])
        hard = [(a, b) for grp in data["groups"] if len(grp) > 1 for i, a in enumerate(grp) for b in grp[i + 1:]]
        singles = [r for grp in data["groups"] for r in grp]
        rnd.shuffle(hard)
        rnd.shuffle(singles)
        cap = PAIR_CAP[tier]
        hard = hard[:cap]
        singles = singles[:cap]
        tot["configs"].append({"config": tag, "representatives": data["representatives"], "hard_pairs": len(hard)})
        ids = rnd.sample(range(0, 400), 8)
        idA = IdMap({k + 1: v for k, v in enumerate(ids)})
        idB = IdMap({k + 1: v + 1000 for k, v in enumerate(rnd.sample(range(0, 4000), 8))})
        for kind in ("CRG", "SCRG"):
            if prop in ("C02", "C05"):
                # the outcome of a wrong search depends on numbering and insertion order: several spellings of a pair
                reps = 1 if len(hard) > 300 else 4
                for a, b in [p for p in hard for _ in range(reps)]:
                    ga, gb = _as_kind(a["g"], kind), _as_kind(b["g"], kind)
                    if rnd.random() < 0.5:
                        ga, gb = gb, ga
                    perm = rnd.sample(range(1, 9), 8)
                    idA2 = IdMap({k + 1: idA.fwd[perm[k]] for k in range(8)})
                    x, y = iso.shuffled_build(ga, idA2, rnd), iso.shuffled_build(gb, idB, rnd)
                    det_ids = idA2.fwd
                    tot["hard_pairs"] += 1
                    det = {"config": tag, "g": ga, "h": gb, "idmapA": det_ids, "idmapB": idB.fwd}
                    if prop == "C02":
                        for nm, f in (("x==y", lambda: x == y), ("y==x", lambda: y == x), ("is_isomorphic", lambda: x.is_isomorphic(y))):
                            try:
                                v = f()
                            except Exception as e:
                                v = "raise:" + type(e).__name__
                            if v is not False:
                                rep.violation(f"C02|eq-lie|wlhard:{cfgk[0]}|{kind}|{nm}",
                                              "two different reactions on a regular skeleton (no skeleton automorphism carries the bond roles of "
                                              "one onto the other; all atoms alike to colour refinement) compare equal: " + str(v), det)
                    else:
                        try:
                            got = list(vf2pp_all_isomorphisms(x, y, stereo=(kind == "SCRG"), stereo_change=(kind == "SCRG")))
                        except Exception as e:
                            got = "raise:" + type(e).__name__
                        if got != []:
                            rep.violation(f"C05|enum-invalid|wlhard:{cfgk[0]}|{kind}",
                                          "the enumerator yields a mapping between two different reactions (bond roles not preserved)",
                                          {**det, "got": str(got)[:300]})
            if prop in ("C01", "C03", "C05"):
                for r in singles:
                    ga, gb = _as_kind(r["g"], kind), _as_kind(r["alt"], kind)
                    x, y = build(ga, idA), iso.shuffled_build(gb, idB, rnd)
                    tot["auto_pairs"] += 1
                    det = {"config": tag, "g": ga, "h": gb, "idmapA": idA.fwd, "idmapB": idB.fwd}
                    if prop == "C01":
                        for nm, f in (("x==y", lambda: x == y), ("y==x", lambda: y == x)):
                            try:
                                v = f()
                            except Exception as e:
                                v = "raise:" + type(e).__name__
                            if v is not True:
                                rep.violation(f"C01|eq-miss|wlhard:{cfgk[0]}|{kind}|{nm}",
                                              "a reaction graph and its image under a skeleton automorphism (renamed, other insertion order) "
                                              "compare unequal: " + str(v), det)
                    elif prop == "C03":
                        try:
                            hx, hy = hash(x), hash(y)
                        except Exception as e:
                            hx, hy = "raise", type(e).__name__
                        if hx != hy:
                            rep.violation(f"C03|hash-differs-on-equal|wlhard:{cfgk[0]}|{kind}",
                                          "a reaction graph and its image under a skeleton automorphism have different hashes", det)
                    else:
                        try:
                            got = list(vf2pp_all_isomorphisms(x, y, stereo=(kind == "SCRG"), stereo_change=(kind == "SCRG")))
                        except Exception as e:
                            got = None
                        ok = bool(got)
                        if ok:
                            # every yielded mapping has to carry the roles
                            for m in got:
                                for (p, q, role, _at) in ga["bonds"]:
                                    bp, bq = m[idA.f(p)], m[idA.f(q)]
                                    want = [t[2] for t in gb["bonds"] if {idB.f(t[0]), idB.f(t[1])} == {bp, bq}]
                                    if want != [role]:
                                        ok = False
                            ok = ok and len({tuple(sorted(m.items())) for m in got}) == len(got)
                        if not ok:
                            rep.violation(f"C05|enum-missing-or-invalid|wlhard:{cfgk[0]}|{kind}",
                                          "enumeration between a reaction graph and its automorphic image is empty, repeats a mapping or "
                                          "yields a mapping that does not preserve the bond roles", det)
    return tot
