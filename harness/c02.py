from . import isochecks


def run(tier):
    return isochecks.run("C02", tier)
