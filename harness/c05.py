from . import isochecks


def run(tier):
    return isochecks.run("C05", tier)
