from . import edit


def run(tier):
    return edit.run("C15", tier)
