"""C01 C02 C03 C05 C06 C16: thin front ends over harness.iso (+ extras)."""
from __future__ import annotations

import json
import os
import subprocess
import sys
import time

from . import common, iso, model
from .common import Reporter

ASSUME = [
    "spec/SMGIso.tla (Isos: every structure-preserving bijection, by exhaustive extension) and SMGStereo!DEq are the oracle; "
    "MC_IsoPairs checks reflexivity, symmetry and Sig-invariance of the oracle on every enumerated pair",
    "bounded families: all MolGraphs on <= 4 ids x {H,C}, all reaction graphs on <= 3 ids with all four roles, star/ethene/"
    "two-centre/TBP/octahedral/lone-pair/SN2 templates with 2-4 ligand elements, every parity pattern and several re-expressions",
    "the two members of a pair are built with disjoint identifier sets and different insertion orders",
]

RULES = {
    "C01": "pairs for which TLC finds a structure-preserving bijection (incl. each member with itself under renaming, other "
           "insertion order and re-expressed descriptors): ==, reversed ==, is_isomorphic must be True",
    "C02": "pairs for which TLC's exhaustive search finds NO bijection must compare unequal; graphs of different classes never equal",
    "C03": "isomorphic pairs must have equal hashes; hashes recomputed in fresh interpreters with different PYTHONHASHSEED",
    "C05": "the list yielded by vf2pp_all_isomorphisms must equal TLC's complete set of bijections, without duplicates; the "
           "VF2++ loop itself is a TLA+ state machine (spec/VF2.tla, model-checked exact for all graph pairs on <= 3 (quick) / "
           "4 (thorough) atoms, all matching orders): recorded runs of the real loop are replayed step by step against it and "
           "their yields compared with the specification's own run",
    "C06": "enantiomer() must project to Enantiomer(g) of the spec, leave the source untouched, be an involution, and equal the "
           "source exactly when TLC finds a bijection onto the mirror image",
    "C16": "pairs whose (element, neighbour elements) multisets differ (reactant/product/TS-wise for reactions) and single-unit "
           "stereoisomer pairs (premises checked by TLC) must have different hashes",
}


def finish(prop, tier, rep, tot, per, samples, extra_cov=None, extra_eval=0):
    nontrivial = {"C01": tot["pairs_iso"], "C02": tot["pairs"] - tot["pairs_iso"], "C03": tot["pairs_iso"],
                  "C05": tot["enumerations"], "C06": tot["mirrors"],
                  "C16": tot["sig_different_pairs"] + tot["single_unit_pairs"]}[prop]
    cov = {"states": tot["states"], "transitions": tot["generated"],
           "traces_validated_against_impl": tot["pairs"] + tot["mirrors"],
           "evaluations": tot["pairs"] + tot["mirrors"] + extra_eval, "distinct_nontrivial": nontrivial,
           "rule": RULES[prop], "families": per, "samples": samples[:4] or ["(see families)"], "exhaustive": False}
    if extra_cov:
        cov.update(extra_cov)
    return rep.finish("model_checking", cov, ASSUME)


def cross_class(rep, prop):
    """graphs of different classes never compare equal (C02) - every ordered pair of classes,
    on the same labelled content."""
    model.init()
    n = 0
    content = {"atoms": [[1, 6, []], [2, 1, []], [3, 8, []]], "bonds": [[1, 2, "none", []], [1, 3, "none", []]],
               "ast": [], "bst": [], "ach": [], "bch": []}
    empty = {"atoms": [], "bonds": [], "ast": [], "bst": [], "ach": [], "bch": []}
    idm = model.IdMap({1: 5, 2: 7, 3: 11})
    for gj in (content, empty):
        objs = {k: model.build({**gj, "kind": k}, idm) for k in model.KIND_CLASS}
        for k1, x in objs.items():
            for k2, y in objs.items():
                if k1 == k2:
                    continue
                n += 1
                try:
                    eq = (x == y)
                except Exception as e:
                    eq = f"raise:{type(e).__name__}"
                if eq is True:
                    rep.violation(f"C02|cross-class-equal|{k1}=={k2}|{'empty' if gj is empty else 'nonempty'}",
                                  f"{k1} instance == {k2} instance is True for the same labelled content",
                                  {"content": gj, "left": k1, "right": k2})
    return n


HASH_SNIPPET = r"""
import json, sys
sys.path.insert(0, %r)
from harness import model
model.init()
idm = model.IdMap({i: 3 * i + 1 for i in range(1, 10)})
out = []
for gj in json.load(open(sys.argv[1])):
    out.append(hash(model.build(gj, idm)))
print(json.dumps(out))
"""


def hash_seeds(rep, graphs, seeds):
    """C03: the hash of a non-empty graph is the same in every interpreter process."""
    import tempfile
    d = tempfile.mkdtemp(prefix="smg-hs-")
    try:
        path = os.path.join(d, "g.json")
        json.dump(graphs, open(path, "w"))
        results = {}
        for s in seeds:
            env = dict(os.environ, PYTHONHASHSEED=str(s))
            p = subprocess.run([sys.executable, "-c", HASH_SNIPPET % str(common.VERIF), path], capture_output=True,
                               text=True, env=env, timeout=600)
            if p.returncode != 0:
                raise common.MachineryError("hash subprocess failed: " + p.stderr[-800:])
            results[s] = json.loads(p.stdout.strip().splitlines()[-1])
    finally:
        import shutil
        shutil.rmtree(d, ignore_errors=True)
    base = results[seeds[0]]
    n = 0
    for s in seeds[1:]:
        for k, (a, b) in enumerate(zip(base, results[s])):
            n += 1
            if a != b:
                rep.violation(f"C03|hash-depends-on-hashseed|{graphs[k]['kind']}",
                              f"hash of a non-empty {graphs[k]['kind']} differs between PYTHONHASHSEED={seeds[0]} and {s}",
                              {"g": graphs[k], "hashes": {seeds[0]: a, s: b}})
    return n


def big_hash(rep):
    """hash of a graph with more than 2**15 atoms (11 001 water molecules), against the same molecules with other
    identifiers: isomorphic by construction (k-th molecule onto k-th molecule)"""
    import stereomolgraph as smgmod

    def waters(cls, n, off, step):
        g = cls()
        for k in range(n):
            o, h1, h2 = (off + step * (3 * k + j) for j in range(3))
            g.add_atom(o, "O")
            g.add_atom(h1, "H")
            g.add_atom(h2, "H")
            g.add_bond(o, h1)
            g.add_bond(h2, o)
        return g
    n = 0
    for cls in (smgmod.MolGraph, smgmod.StereoMolGraph, smgmod.CondensedReactionGraph):
        n += 1
        try:
            ha, hb = hash(waters(cls, 11001, 0, 1)), hash(waters(cls, 11001, 7, 3))
        except Exception as e:
            rep.violation(f"C03|hash-raises-on-large-graph|{cls.__name__}|{type(e).__name__}",
                          f"hash() of a {cls.__name__} with 33 003 atoms raises {type(e).__name__}: {e}", {"atoms": 33003})
            continue
        if ha != hb:
            rep.violation(f"C03|hash-differs-on-equal|large|{cls.__name__}", "two renamings of 11 001 water molecules hash differently", {})
    return n


def diatomics(rep, prop):
    """ALL diatomics X-Y over the 118 elements (7021 graphs per class): different element pairs are different graphs with
    different (element, neighbour elements) multisets, so their hashes must differ (C16) and they must compare unequal
    (C02; compared inside every group of equal hashes, where a search that trusts the colours would go wrong, and as one
    component of a larger graph)"""
    import stereomolgraph as smgmod
    from stereomolgraph.periodic_table import SYMBOLS
    n = 0
    for cls in (smgmod.MolGraph, smgmod.CondensedReactionGraph, smgmod.StereoMolGraph):
        by_hash = {}
        graphs = {}
        for za in range(1, 119):
            for zb in range(za, 119):
                g = cls()
                g.add_atom(0, SYMBOLS[za])
                g.add_atom(1, SYMBOLS[zb])
                g.add_bond(0, 1)
                graphs[(za, zb)] = g
                by_hash.setdefault(hash(g), []).append((za, zb))
                n += 1
        for h, grp in by_hash.items():
            if len(grp) < 2:
                continue
            names = ["%s-%s" % (SYMBOLS[a], SYMBOLS[b]) for a, b in grp]
            if prop == "C16":
                rep.violation(f"C16|hash-collides-on-different-signature|diatomics|{cls.__name__}",
                              "different diatomics have the same hash: " + ", ".join(names[:6]), {"group": names})
            if prop == "C02":
                for i in range(len(grp)):
                    for j in range(i + 1, len(grp)):
                        x, y = graphs[grp[i]], graphs[grp[j]]
                        # alone, and as one component next to a chloromethane molecule
                        big = []
                        for d in (x, y):
                            w = cls()
                            for k, e in enumerate(("C", "H", "H", "H", "Cl")):
                                w.add_atom(10 + k, e)
                            for k in range(1, 5):
                                w.add_bond(10, 10 + k)
                            big.append(cls.compose([w, d]))
                        for tag, (p_, q_) in (("alone", (x, y)), ("component", tuple(big))):
                            n += 1
                            try:
                                v = (p_ == q_)
                            except Exception as e:
                                v = "raise:" + type(e).__name__
                            if v is not False:
                                rep.violation(f"C02|eq-lie|diatomics|{cls.__name__}|{tag}",
                                              f"{names[i]} and {names[j]} ({tag}) compare equal: {v}", {"pair": [names[i], names[j]]})
    return n


def hepta(rep, prop):
    """a seven-coordinate centre without descriptor whose same-element ligands differ in what they carry (Mo(CO)4(CN)3):
    renamed / re-inserted copies are the same graph by construction, so they must compare equal (C01) and hash alike (C03)"""
    import random
    import stereomolgraph as smgmod
    rnd = random.Random(common.seed() + 77)
    n = 0
    for cls in (smgmod.StereoMolGraph, smgmod.StereoCondensedReactionGraph, smgmod.MolGraph):
        ref = None
        for trial in range(8):
            ids = rnd.sample(range(0, 400), 15)
            mo, cs, tails = ids[0], ids[1:8], ids[8:15]
            atoms = [(mo, "Mo")] + [(c, "C") for c in cs] + [(t, "O" if k < 4 else "N") for k, t in enumerate(tails)]
            bonds = [(mo, c) for c in cs] + list(zip(cs, tails))
            rnd.shuffle(atoms)
            rnd.shuffle(bonds)
            g = cls()
            for a, e in atoms:
                g.add_atom(a, e)
            for a, b in bonds:
                g.add_bond(b, a) if rnd.random() < 0.5 else g.add_bond(a, b)
            n += 1
            if ref is None:
                ref = g
                continue
            try:
                if prop == "C03" and hash(g) != hash(ref):
                    rep.violation(f"C03|hash-differs-on-equal|hepta-coordinate|{cls.__name__}",
                                  "two renamings of Mo(CO)4(CN)3 (seven-coordinate centre without descriptor) hash differently", {})
                if prop == "C01" and not (g == ref and ref == g):
                    rep.violation(f"C01|eq-miss|hepta-coordinate|{cls.__name__}",
                                  "two renamings of Mo(CO)4(CN)3 (seven-coordinate centre without descriptor) compare unequal", {})
            except Exception as e:
                rep.violation(f"{prop}|raises|hepta-coordinate|{cls.__name__}|{type(e).__name__}", "== / hash raised on Mo(CO)4(CN)3", {})
    return n


HIGH_DEGREE_SRC = """
import sys, resource
cap = int(float(sys.argv[2]) * 2**30)
resource.setrlimit(resource.RLIMIT_AS, (cap, cap))
import stereomolgraph as smg
d = int(sys.argv[1])
g, h = smg.StereoMolGraph(), smg.StereoMolGraph()
for x, off in ((g, 0), (h, 100)):
    x.add_atom(off, "Cr")
    for i in range(1, d + 1):
        x.add_atom(off + i, "C")
        x.add_bond(off + i, off)
try:
    print("RESULT", g == h)
except MemoryError:
    print("RESULT MemoryError")
except Exception as e:
    print("RESULT", type(e).__name__)
"""


def high_degree(rep, tier):
    """a centre with twelve neighbours and no descriptor (bis(benzene)chromium-like star) against its renamed copy, in a
    subprocess with a capped address space (the unchanged library builds all 12! neighbour orders)"""
    cap = "3" if tier == "quick" else "6"
    env = dict(os.environ)
    try:
        p = subprocess.run([sys.executable, "-c", HIGH_DEGREE_SRC, "12", cap], capture_output=True, text=True, timeout=400, env=env)
        out = [l for l in p.stdout.splitlines() if l.startswith("RESULT")]
        res = out[-1].split(None, 1)[1] if out else "no-result:" + p.stderr[-200:]
    except subprocess.TimeoutExpired:
        res = "timeout"
    if res != "True":
        rep.violation(f"C01|eq-raises|high-degree-centre-without-descriptor|StereoMolGraph|{res.split(':')[0]}",
                      f"a StereoMolGraph star with a 12-coordinate centre compared with its renamed copy: {res} "
                      f"(address space capped at {cap} GB)", {"degree": 12, "cap_gb": cap})
    return 1


def run(prop, tier):
    rep = Reporter(prop, tier)
    tot, per, samples = iso.collect(prop, tier, rep)
    extra = {}
    extra_eval = 0
    if prop == "C02":
        extra_eval = cross_class(rep, prop)
        extra["cross_class_pairs"] = extra_eval
    if prop == "C03":
        gs = SAMPLE_GRAPHS
        seeds = [0, 1, 2, 12345] if tier == "quick" else [0, 1, 2, 3, 7, 99, 12345, 4294967295]
        extra_eval = hash_seeds(rep, gs, seeds)
        extra["hashseed_comparisons"] = extra_eval
        extra["large_graph_hashes"] = big_hash(rep)
        extra["hashseeds"] = seeds
    if prop in ("C01", "C02", "C03", "C16"):
        from . import large
        lc = large.collect(prop, tier, rep)
        extra["large_graphs"] = lc
        extra_eval += lc.get("partners", 0)
        tot["states"] += lc.get("states", 0)
        tot["generated"] += lc.get("generated", 0)
    if prop in ("C01", "C02", "C03", "C05"):
        from . import wlhard
        wl = wlhard.collect(prop, tier, rep)
        extra["wl_hard_reaction_pairs"] = wl
        extra_eval += wl["hard_pairs"] + wl["auto_pairs"]
        tot["states"] += wl["states"]
        tot["generated"] += wl["generated"]
    if prop == "C01":
        extra["high_degree_centre"] = high_degree(rep, tier)
    if prop in ("C01", "C03"):
        extra["hepta_coordinate_renamings"] = hepta(rep, prop)
    if prop in ("C02", "C16"):
        extra["all_diatomics"] = diatomics(rep, prop)
    if prop in ("C01", "C02"):
        from . import vf2trace
        ve = vf2trace.collect_eq(prop, tier, rep, common.seed())
        extra["eq_through_vf2_model"] = ve
        extra_eval += ve["eq_runs"]
        tot["states"] += ve["states"]
        tot["generated"] += ve["generated"]
    if prop == "C05":
        from . import vf2trace
        mc = vf2trace.model_check(tier)
        tv = vf2trace.collect(tier, rep, common.seed())
        extra["vf2_model"] = mc
        extra["vf2_trace_validation"] = tv
        extra_eval += tv["runs"] + tv["replayed"]
        tot["states"] += mc["states"] + tv["states"]
        tot["generated"] += mc["generated"] + tv["generated"]
    if prop == "C06":
        from . import edit
        ecov = edit.collect("C06", tier, rep)
        extra["edit_machine"] = {k: ecov[k] for k in ("states", "transitions", "profiles", "trace_validation")}
        extra_eval += ecov["evaluations"]
        tot["states"] += ecov["states"]
        tot["generated"] += ecov["transitions"]
    return finish(prop, tier, rep, tot, per, samples, extra, extra_eval)


def _g(kind, atoms, bonds, ast=(), bst=(), ach=(), bch=()):
    return {"kind": kind, "atoms": [[a, e, []] for a, e in atoms], "bonds": [[a, b, r, []] for a, b, r in bonds],
            "ast": list(ast), "bst": list(bst), "ach": list(ach), "bch": list(bch), "comp": [], "valid": True}


N = model.NOATOM
_star = [(1, 6), (2, 1), (3, 9), (4, 17), (5, 35)]
_sb = [(1, 2, "none"), (1, 3, "none"), (1, 4, "none"), (1, 5, "none")]
SAMPLE_GRAPHS = [
    _g("MG", [(1, 6)], []),
    _g("MG", _star, _sb),
    _g("SMG", _star, _sb, ast=[[1, ["Tetrahedral", [1, 2, 3, 4, 5], 1]]]),
    _g("SMG", _star, _sb, ast=[[1, ["SquarePlanar", [1, 2, 3, 4, 5], 0]]]),
    _g("SMG", [(1, 1), (2, 9), (3, 6), (4, 6), (5, 1), (6, 9)],
       [(1, 3, "none"), (2, 3, "none"), (3, 4, "none"), (4, 5, "none"), (4, 6, "none")],
       bst=[[3, 4, ["PlanarBond", [1, 2, 3, 4, 5, 6], 0]]]),
    _g("SMG", [(1, 15), (2, 1), (3, 9), (4, 17)], [(1, 2, "none"), (1, 3, "none"), (1, 4, "none")],
       ast=[[1, ["Tetrahedral", [1, 2, 3, 4, N], -1]]]),
    _g("CRG", _star, [(1, 2, "none"), (1, 3, "formed"), (1, 4, "broken"), (1, 5, "fleeting")]),
    _g("SCRG", _star, [(1, 2, "none"), (1, 3, "none"), (1, 4, "broken"), (1, 5, "formed")],
       ach=[[1, [["broken", ["Tetrahedral", [1, 2, 3, 4, N], 1]], ["formed", ["Tetrahedral", [1, 2, 3, 5, N], -1]],
                 ["fleeting", ["TrigonalBipyramidal", [1, 4, 5, 2, 3, N], 1]]]]]),
    _g("SCRG", [(1, 6), (2, 8)], [(1, 2, "none")]),
]
_eth = [(1, 1), (2, 9), (3, 6), (4, 6), (5, 1), (6, 17)]
_ethb = [(1, 3, "none"), (2, 3, "none"), (3, 4, "none"), (4, 5, "none"), (4, 6, "none")]
_oct = [(1, 27), (2, 1), (3, 9), (4, 17), (5, 35), (6, 8), (7, 7)]
# every descriptor class with every specified parity, static and inside stereo changes
for _p in (1, -1):
    SAMPLE_GRAPHS.append(_g("SMG", _eth, _ethb, bst=[[3, 4, ["AtropBond", [1, 2, 3, 4, 5, 6], _p]]]))
    SAMPLE_GRAPHS.append(_g("SMG", _oct, [(1, k, "none") for k in range(2, 8)], ast=[[1, ["Octahedral", [1, 2, 3, 4, 5, 6, 7], _p]]]))
    SAMPLE_GRAPHS.append(_g("SMG", _oct[:6], [(1, k, "none") for k in range(2, 7)],
                            ast=[[1, ["TrigonalBipyramidal", [1, 2, 3, 4, 5, 6], _p]]]))
    SAMPLE_GRAPHS.append(_g("SMG", _star, _sb, ast=[[1, ["Tetrahedral", [1, 2, 3, 4, 5], _p]]]))
    SAMPLE_GRAPHS.append(_g("SCRG", _eth, [(1, 3, "none"), (2, 3, "none"), (3, 4, "formed"), (4, 5, "none"), (4, 6, "none")],
                            bch=[[3, 4, [["formed", ["AtropBond", [1, 2, 3, 4, 5, 6], _p]], ["fleeting", ["PlanarBond", [1, 2, 3, 4, 5, 6], 0]]]]]))
SAMPLE_GRAPHS.append(_g("SMG", _star, _sb, ast=[[1, ["Tetrahedral", [1, 2, 3, 4, 5], model.NOPAR]]]))
SAMPLE_GRAPHS.append(_g("SMG", _eth, _ethb, bst=[[3, 4, ["PlanarBond", [1, N, 3, 4, 5, 6], 0]]]))
