"""C18 - bond-order perception never alters connectivity and completes octets.

structural: MC_BondOrd enumerates every symmetric 0/1 connectivity matrix on n <= 4 atoms (sampled for
   n = 5) x element lists, also chemically impossible ones; connectivity2bond_orders is called and
   Obs_BondOrd (TLC) checks the returned matrix.
chemical: corpus molecules that RDKit certifies to be neutral closed-shell molecules of the supported
   elements in standard valences, in several atom orders: through connectivity2bond_orders and through
   to_rdmol(generate_bond_orders=True) with shuffled, non-contiguous identifiers.
"""
from __future__ import annotations

import json
import random
import warnings

import numpy as np

from . import common, model, rdk, c20
from .common import Reporter

STD = {1: {1}, 6: {4}, 7: {3}, 8: {2}, 9: {1}, 17: {1}, 35: {1}, 53: {1}, 16: {2, 6}, 15: {3, 5}}
MODS = {"quick": {2: 1, 3: 3, 4: 200}, "thorough": {2: 1, 3: 1, 4: 12, 5: 4000}}
# MC_Lewis: (heavy atoms, SampleMod) - every neutral closed-shell molecule of the supported elements with that many heavy atoms
# (heavy atoms, shape, number of elements from C N O S P F, SampleMod)
LEWIS = {"quick": [(1, "any", 6, 1), (2, "any", 6, 1), (3, "any", 6, 1), (4, "path", 3, 1), (6, "ring", 1, 1)],
         "thorough": [(1, "any", 6, 1), (2, "any", 6, 1), (3, "any", 6, 1), (4, "any", 6, 2), (5, "path", 3, 2), (5, "ring", 3, 1),
                      (6, "ring", 2, 1), (6, "path", 2, 2)]}


def certified(m):
    """RDKit's kekulised structure: neutral, closed shell, every atom in a standard valence."""
    from rdkit import Chem
    mk = Chem.Mol(m)
    try:
        Chem.Kekulize(mk, clearAromaticFlags=True)
    except Exception:
        return False
    n_unsat = 0
    for a in mk.GetAtoms():
        if a.GetFormalCharge() != 0 or a.GetNumRadicalElectrons() != 0:
            return False
        z = a.GetAtomicNum()
        if z not in STD:
            return False
        val = int(round(sum(b.GetBondTypeAsDouble() for b in a.GetBonds())))
        if val not in STD[z]:
            return False
        if any(b.GetBondTypeAsDouble() > 1 for b in a.GetBonds()):
            n_unsat += 1
    return n_unsat <= 14


def lewis_motif(heavy, orders):
    """structural class of a constructed Lewis structure (heavy atoms 1..n, orders = [[a, b, order], ...]):
    'hypervalent-bonded-partners': an atom with two multiple-bond partners that are bonded to each other;
    'multi-sp': at least two atoms with two or more units of unsaturation (cumulated / triple-bond atoms);
    'plain': everything else"""
    n = len(heavy)
    bo = {frozenset((a, b)): o for a, b, o in orders}
    nb = {a: [b for b in range(1, n + 1) if frozenset((a, b)) in bo] for a in range(1, n + 1)}
    for a in nb:
        dbl = [x for x in nb[a] if bo[frozenset((a, x))] >= 2]
        if any(frozenset((x, y)) in bo for i, x in enumerate(dbl) for y in dbl[i + 1:]):
            return "hypervalent-bonded-partners"
    du = {a: sum(bo[frozenset((a, b))] - 1 for b in nb[a]) for a in nb}
    if sum(1 for a in du if du[a] >= 2) >= 2:
        return "multi-sp"
    return "plain"


CORONENE_SRC = """
import sys, resource
cap = int(float(sys.argv[1]) * 2**30)
resource.setrlimit(resource.RLIMIT_AS, (cap, cap))
import numpy as np
from rdkit import Chem
from stereomolgraph.algorithms.bond_orders import connectivity2bond_orders
m = Chem.AddHs(Chem.MolFromSmiles("c1cc2ccc3ccc4ccc5ccc6ccc1c1c2c3c4c5c61"))
els = [a.GetAtomicNum() for a in m.GetAtoms()]
ac = np.array(Chem.GetAdjacencyMatrix(m), dtype=int)
try:
    bo, ch, un = connectivity2bond_orders(els, ac)
    vals = [int(x) for x in np.array(bo).sum(axis=1)]
    ok = all(v == (4 if e == 6 else 1) for v, e in zip(vals, els)) and not any(un)
    print("RESULT", "ok" if ok else "wrong")
except MemoryError:
    print("RESULT MemoryError")
except Exception as e:
    print("RESULT", type(e).__name__)
"""


def coronene(rep):
    """coronene (24 sp2 carbons): the pair enumeration materialises C(30,12) = 86 million bond combinations"""
    import os
    import subprocess
    import sys
    try:
        p = subprocess.run([sys.executable, "-c", CORONENE_SRC, "3"], capture_output=True, text=True, timeout=600, env=dict(os.environ))
        out = [l for l in p.stdout.splitlines() if l.startswith("RESULT")]
        res = out[-1].split(None, 1)[1] if out else "no-result"
    except subprocess.TimeoutExpired:
        res = "timeout"
    if res != "ok":
        rep.violation(f"C18|no-matrix|polycyclic-aromatic|coronene|{res}",
                      f"connectivity2bond_orders on coronene (36 atoms): {res} (address space capped at 3 GB)", {"smiles": "coronene"})
    return res


def as_int_matrix(bo):
    out = []
    for row in np.array(bo):
        r = []
        for x in row:
            xf = float(x)
            r.append(int(round(xf)) if abs(xf - round(xf)) < 1e-9 else -1)
        out.append(r)
    return out


def run(tier):
    rep = Reporter("C18", tier)
    model.init()
    warnings.filterwarnings("ignore")
    from rdkit import Chem, RDLogger
    RDLogger.DisableLog("rdApp.*")
    from stereomolgraph.algorithms.bond_orders import connectivity2bond_orders
    import stereomolgraph as smgmod
    rnd = random.Random(common.seed() + 18)
    recs = []
    states = gen = 0
    n_struct = 0
    for n, mod in MODS[tier].items():
        cs, res = c20.tlc_cases("MC_BondOrd", {"NAt": n, "SampleMod": mod}, "B")
        states += res.distinct
        gen += res.generated
        for c in cs:
            n_struct += 1
            els, ac = c["els"], c["ac"]
            try:
                bo, ch, un = connectivity2bond_orders(els, np.array(ac, dtype=int))
            except Exception as e:
                rep.violation(f"C18|structural|raises:{type(e).__name__}|n={n}",
                              f"connectivity2bond_orders raised {type(e).__name__} on a {n}-atom connectivity input", {"case": c})
                continue
            recs.append({"id": len(recs) + 1, "els": els, "ac": ac, "bo": as_int_matrix(bo), "charges": [int(x) for x in ch],
                         "unpaired": [int(x) for x in un], "lewis": False, "lowest": False, "src": "matrix"})
    # ------------------- chemical, by construction (MC_Lewis) -------------------
    n_lewis = 0
    lewis_keys = set()
    for n, shape, eln, mod in LEWIS[tier]:
        cs, res = c20.tlc_cases("MC_Lewis", {"NHeavy": n, "SampleMod": mod, "NPerm": 4, "Shape": '"%s"' % shape, "ElN": eln}, "L")
        states += res.distinct
        gen += res.generated
        for c in cs:
            n_lewis += 1
            els, ac = c["els"], c["ac"]
            lewis_keys.add((tuple(c["heavy"]), json.dumps(c["orders"])))
            key = "-".join(map(str, c["heavy"]))
            try:
                bo, ch, un = connectivity2bond_orders(els, np.array(ac, dtype=int))
            except Exception as e:
                rep.violation(f"C18|lewis|raises:{type(e).__name__}|heavy={key}",
                              f"connectivity2bond_orders raised {type(e).__name__} on a constructed closed-shell molecule", {"case": c})
                continue
            recs.append({"id": len(recs) + 1, "els": els, "ac": ac, "bo": as_int_matrix(bo), "charges": [int(x) for x in ch],
                         "unpaired": [int(x) for x in un], "lewis": True, "lowest": bool(c.get("lowest", False)),
                         "src": f"lewis:{lewis_motif(c['heavy'], c['orders'])}/{shape}{n}/{key}|perm{c['perm']}|direct",
                         "structure": c["orders"]})
    # ------------------------------ chemical ------------------------------
    n_mols = 0
    n_orders = 3 if tier == "quick" else 8
    corpus = rdk.corpus()
    names = set()
    for name, smi in corpus:
        m = Chem.MolFromSmiles(smi)
        if m is None:
            continue
        m = Chem.AddHs(m)
        if m.GetNumAtoms() > 40 or not certified(m):
            continue
        n_mols += 1
        names.add(name)
        n = m.GetNumAtoms()
        base_els = [a.GetAtomicNum() for a in m.GetAtoms()]
        base_ac = Chem.GetAdjacencyMatrix(m)
        for k in range(n_orders):
            perm = list(range(n))
            if k:
                rnd.shuffle(perm)
            els = [base_els[i] for i in perm]
            ac = [[int(base_ac[perm[i]][perm[j]]) for j in range(n)] for i in range(n)]
            try:
                bo, ch, un = connectivity2bond_orders(els, np.array(ac, dtype=int))
                recs.append({"id": len(recs) + 1, "els": els, "ac": ac, "bo": as_int_matrix(bo), "charges": [int(x) for x in ch],
                             "unpaired": [int(x) for x in un], "lewis": True, "lowest": False, "src": f"{name}|order{k}|direct"})
            except Exception as e:
                rep.violation(f"C18|chemical|{name}|raises:{type(e).__name__}", f"connectivity2bond_orders raised on {name}", {"smiles": smi, "perm": perm})
            # through the RDKit exporter with shuffled, non-contiguous identifiers
            ids = rnd.sample(range(1, 5000), n)
            g = smgmod.MolGraph()
            for i in range(n):
                g.add_atom(ids[i], els[i])
            for i in range(n):
                for j in range(i + 1, n):
                    if ac[i][j]:
                        g.add_bond(ids[i], ids[j])
            try:
                rm = g.to_rdmol(generate_bond_orders=True)
            except Exception as e:
                rep.violation(f"C18|to_rdmol|raises:{type(e).__name__}",
                              f"to_rdmol(generate_bond_orders=True) raised {type(e).__name__} ({name}, arbitrary identifiers)",
                              {"smiles": smi, "ids": ids[:8]})
                continue
            # read the written bond types back, atom i of the RDKit molecule = i-th atom of the graph
            order_ids = list(g.atoms)
            pos = {a: i for i, a in enumerate(order_ids)}
            bo2 = [[0] * n for _ in range(n)]
            for b in rm.GetBonds():
                x, y = b.GetBeginAtomIdx(), b.GetEndAtomIdx()
                v = b.GetBondTypeAsDouble()
                vi = int(round(v)) if abs(v - round(v)) < 1e-9 else -1
                bo2[x][y] = bo2[y][x] = vi
            els2 = [rm.GetAtomWithIdx(i).GetAtomicNum() for i in range(n)]
            ac2 = [[1 if g.has_bond(order_ids[i], order_ids[j]) else 0 for j in range(n)] for i in range(n)]
            recs.append({"id": len(recs) + 1, "els": els2, "ac": ac2, "bo": bo2,
                         "charges": [rm.GetAtomWithIdx(i).GetFormalCharge() for i in range(n)],
                         "unpaired": [rm.GetAtomWithIdx(i).GetNumRadicalElectrons() for i in range(n)], "lewis": True, "lowest": False,
                         "src": f"{name}|order{k}|to_rdmol"})
    coronene_result = coronene(rep)
    # observation (not part of C18 as written): bond orders above three, e.g. the S-S bond of a disulfide comes out with
    # order five because S(VI) is tried before S(II); every atom still has a standard valence
    high = sorted({r["src"].split("|")[0] for r in recs if r["lewis"] and any(x > 3 for row in r["bo"] for x in row)})
    if high:
        rep.note("bond orders above 3 were assigned (every atom still in a standard valence) for %d inputs, e.g. %s"
                 % (len(high), ", ".join(high[:4])))
    ok, bad = rdk.validate("Obs_BondOrd", recs, ("id", "els", "ac", "bo", "charges", "unpaired", "lewis", "lowest")) if recs else (set(), {})
    byid = {r["id"]: r for r in recs}
    for i, v in bad.items():
        r = byid[i]
        clause = "structural" if not v["structural"] else ("lewis" if not v["lewis"] else "hypervalent-where-not-needed")
        src = r["src"].split("|")
        sig = (f"C18|{clause}|{src[0]}|{src[-1]}" if r["lewis"] else f"C18|structural|matrix|n={len(r['els'])}")
        if src[0].startswith("lewis:"):
            # signature by the multiset of heavy elements and the bonds between DIFFERENT multi-valent elements involved
            sig = f"C18|{clause}|constructed|" + src[0][6:].replace("/", "|")
        rep.violation(sig, f"bond orders for {r['src']}: clause '{clause}' of Obs_BondOrd fails", {"record": r})
    cov = {
        "states": states, "transitions": gen, "traces_validated_against_impl": len(recs),
        "evaluations": len(recs), "distinct_nontrivial": n_struct + n_mols,
        "rule": "structural: (connectivity matrix, element list) cases from MC_BondOrd; chemical: corpus molecules certified by "
                "RDKit x atom orders x {direct call, to_rdmol with shuffled identifiers}; every record decided by Obs_BondOrd; "
                "distinct_nontrivial = structural cases + certified molecules",
        "coronene": coronene_result, "structural_cases": n_struct, "constructed_lewis_cases": n_lewis, "constructed_lewis_structures": len(lewis_keys), "certified_molecules": sorted(names), "records": len(recs), "accepted": len(ok),
        "samples": [recs[0] if recs else "none", recs[-1]["src"] if recs else "none"],
    }
    return rep.finish("exploration", cov, [
        "MC_Lewis constructs the precondition (a Lewis structure in standard valences exists) for every molecule with <= 3 heavy "
        "atoms (4: sampled) of C N O S P F; RDKit's kekulised structure certifies the precondition 'neutral closed-shell molecule in standard valences'",
        "standard valences in Obs_BondOrd: H1 C4 N3 O2 halogens 1 S{2,6} P{3,5}",
        "molecules with more than 14 unsaturated atoms are not driven (the pair enumeration is combinatorial)",
    ])
