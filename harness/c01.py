from . import isochecks


def run(tier):
    return isochecks.run("C01", tier)
