from . import edit
def run(tier): return edit.run("C11", tier)
