"""spec -> code: execute every transition TLC prints on the real classes.

Line format (MC_Edit.EmitT):   T|<pre-store>#<post-store>#<json: slot, op, out, ans, alts>
                               I|<store>        (initial states)
A store is [A, B, C, ph].  The raw text of a store is the key of the abstract
state; a real representative of every abstract state is obtained by executing
the transition that first reaches it (so every representative has a genuine
history).  A transition is accepted when the real behaviour matches ANY of
the allowed outcomes (alts); the successor representative is kept only when
it matches the outcome chosen on this line.
"""
from __future__ import annotations

import copy
import json
import random
import time

from . import model, interp
from .model import IdMap, project, canon, diff, build

SLOTS = ("A", "B", "C")

DERIVERS = {"copy", "json_roundtrip", "copy_ctor", "copy_mod", "relabel_copy", "subgraph", "enantiomer",
            "reverse", "reactant", "product", "compose", "compose_components"}
QUERIES = {"has_atom", "has_bond", "n_atoms", "get_atom_type", "get_atom_attr", "get_bond_attr",
           "bonded_to", "component_of", "n_components", "role_bonds", "active_atoms",
           "get_atom_stereo", "get_bond_stereo",
           "get_atom_stereo_change", "get_bond_stereo_change", "is_stereo_valid",
           "eq_self", "eq_copy", "hash", "str", "to_json", "to_rdmol"}


class Rep:
    __slots__ = ("objs", "proj", "hist", "tags")

    def __init__(self, objs, proj, hist, tags):
        self.objs = objs      # {"A": obj|None, ...}
        self.proj = proj      # {"A": canonical projection}
        self.hist = hist      # list of (slot, op-name) for replay files (bounded)
        self.tags = tags      # frozenset of history tags: "relabel", "subgraph", "compose", ...


def make_idmap(n_ids, rnd: random.Random) -> IdMap:
    pool = set()
    while len(pool) < n_ids:
        c = rnd.choice([rnd.randint(-40, 60), rnd.randint(10**5, 10**6), -rnd.randint(10**3, 10**4),
                        rnd.randint(2**33, 2**34)])
        if c != model.NOATOM:
            pool.add(c)
    pool = list(pool)
    # identifier 0 is legitimate and falsy: always have it in play
    rnd.shuffle(pool)
    if 0 in pool:
        pool.remove(0)
        pool.append(rnd.randint(61, 99))
    k0 = rnd.randrange(max(1, n_ids - 2))
    pool[k0] = 0      # on one of the universe identifiers, not on a fresh one
    # -1 is what a careless serialiser uses for "no atom": have it in play as a real identifier too
    if -1 in pool:
        pool[pool.index(-1)] = rnd.randint(100, 199)
    if n_ids >= 3:
        k1 = (k0 + 1 + rnd.randrange(max(1, n_ids - 3))) % max(1, n_ids - 2)
        if k1 != k0:
            pool[k1] = -1
    return IdMap({i + 1: pool[i] for i in range(n_ids)})


class Failure:
    def __init__(self, kind, props, sig, what, detail):
        self.kind = kind
        self.props = props
        self.sig = sig
        self.what = what
        self.detail = detail


class Engine:
    def __init__(self, n_ids, seed, on_failure, max_states=2_000_000):
        self.rnd = random.Random(seed)
        self.idm = make_idmap(n_ids + 2, self.rnd)
        self.universe = list(range(1, n_ids + 2))
        self.reps: dict[str, Rep] = {}
        self.on_failure = on_failure
        self.n_trans = 0
        self.n_skipped = 0
        self.n_init = 0
        self.by_op: dict[str, int] = {}
        self.by_out: dict[str, int] = {}
        self.loose_taken: dict[str, int] = {}
        self.eqhash_checks = 0
        self.samples = []
        self.max_states = max_states
        self.iter_kinds_used = set()

    # ------------------------------------------------------------------
    def _proj_all(self, objs):
        out = {}
        bads = {}
        for s in SLOTS:
            p, bad = project(objs.get(s), self.idm, self.universe)
            out[s] = p
            if bad:
                bads[s] = bad
        return out, bads

    def add_initial(self, text):
        store = json.loads(text)
        objs = {}
        for s, gj in zip(SLOTS, store[:3]):
            objs[s] = build(gj, self.idm) if gj != 0 else None
        proj, bads = self._proj_all(objs)
        exp = {s: canon(gj) for s, gj in zip(SLOTS, store[:3])}
        self.n_init += 1
        for s in SLOTS:
            d = diff(proj[s], exp[s])
            if d or s in bads:
                self.on_failure(Failure(
                    "build", {"C09"}, f"build|{store[0]['kind'] if store[0] else '-'}|{d or 'incoherent'}",
                    "a graph built through the public API does not project to the abstract graph it was built from",
                    {"expected": exp[s], "observed": proj[s], "incoherent": bads.get(s)}))
                return
        self.reps[text] = Rep(objs, proj, [("init", text[:300])], frozenset())

    # ------------------------------------------------------------------
    def transition(self, body: str):
        pre_t, post_t, rest = body.split("#", 2)
        rep = self.reps.get(pre_t)
        if rep is None:
            self.n_skipped += 1
            return
        info = json.loads(rest)
        op = info["op"]
        name = op["name"]
        slot = info["slot"]
        self.n_trans += 1
        self.by_op[name] = self.by_op.get(name, 0) + 1
        recv_slot = {"A": "A", "B": "B", "C": "C", "AB": "A", "BA": "B", "BC": "B"}[slot]
        other_slot = {"AB": "B", "BA": "A"}.get(slot)
        res_slot = "C" if (name == "compose" or slot == "BC") else "B"

        variants = [dict(swap=False, iter_kind="list")]
        if name == "subgraph":
            variants = [dict(swap=False, iter_kind=k) for k in interp.ITER_KINDS]
        elif op["a"] != op["b"] and op["b"] != 0 and self.rnd.random() < 0.5:
            variants = [dict(swap=True, iter_kind="list")]

        for var in variants:
            objs = copy.deepcopy(rep.objs)
            g = objs[recv_slot]
            other = objs[other_slot] if other_slot else None
            self.iter_kinds_used.add(var["iter_kind"])
            out, ans, res = interp.apply(g, op, self.idm, other=other, **var)
            if name == "relabel_inplace" and out == "ok":
                pass
            if res is not None:
                objs[res_slot] = res
            proj, bads = self._proj_all(objs)
            ok_alt, chosen_ok, why = self._judge(info, rep, proj, out, ans, recv_slot, res_slot, post_t)
            tags = rep.tags | self._tags_of(name)
            if bads or not ok_alt:
                self._report(info, rep, proj, bads, out, ans, why, var, pre_t, tags, recv_slot, res_slot)
                continue
            self.by_out[out.split(":")[0]] = self.by_out.get(out.split(":")[0], 0) + 1
            if name in ("json_roundtrip", "copy") and res is not None:
                self._same_graph(name, g, res, info, rep, pre_t)
            if chosen_ok:
                old = self.reps.get(post_t)
                if old is None:
                    if len(self.reps) < self.max_states:
                        hist = (rep.hist + [(slot, name, _short(op))])[-12:]
                        self.reps[post_t] = Rep(objs, proj, hist, tags)
                elif (old is not rep and name not in QUERIES and out == "ok"
                      and (self.eqhash_checks < 1500 or self.rnd.random() < 0.02)):
                    self._eq_hash(old, objs, info, rep, post_t, tags)
        if len(self.samples) < 6 and name not in QUERIES and self.n_trans % 997 == 1:
            self.samples.append({"pre": json.loads(pre_t), "slot": slot, "op": _short(op),
                                 "out": info["out"], "post": json.loads(post_t)})

    # ------------------------------------------------------------------
    @staticmethod
    def _tags_of(name):
        if name in ("relabel_inplace", "relabel_copy"):
            return {"relabel"}
        if name in ("subgraph", "compose", "compose_components"):
            return {"algebra"}
        if name in DERIVERS:
            return {"derived"}
        return set()

    def _judge(self, info, rep, proj, out, ans, recv_slot, res_slot, post_t):
        """does the real behaviour match one of the allowed outcomes?"""
        name = info["op"]["name"]
        outk = out.split(":")[0]
        pre = rep.proj
        why = []
        matched = None
        for alt in info["alts"]:
            if alt["out"] != outk:
                why.append(f"outcome {outk} vs allowed {alt['out']}")
                continue
            exp_g = pre[recv_slot] if alt["g"] == "=" else canon(alt["g"])
            d = diff(proj[recv_slot], exp_g)
            if not d and alt["g"] == "=" and proj[recv_slot] != 0 and proj[recv_slot].get("raw") != pre[recv_slot].get("raw"):
                d = "raw container views (a key appeared or vanished)"
            if d:
                why.append(f"receiver differs in {d}")
                continue
            if alt["res"] != 0:
                d = diff(proj[res_slot], canon(alt["res"]))
                if d:
                    why.append(f"result differs in {d}")
                    continue
            if outk == "ans" and not interp.answers_match(ans, interp.spec_answer(alt["ans"])):
                why.append(f"answer {ans} vs allowed {interp.spec_answer(alt['ans'])}")
                continue
            matched = alt
            break
        # the slots the operation does not own must not move
        for s in SLOTS:
            if s == recv_slot:
                continue
            if s == res_slot and name in DERIVERS:
                continue
            if diff(proj[s], pre[s]):
                why.append(f"slot {s} changed although the operation was on {recv_slot}")
                matched = None
        if matched is None:
            return False, False, why
        if len(info["alts"]) > 1:
            key = f"{name}:{matched['out']}:{'same' if matched['g'] == '=' else 'changed'}"
            self.loose_taken[key] = self.loose_taken.get(key, 0) + 1
        chosen = (matched["out"] == info["out"] and self._alt_is_chosen(matched, info, post_t, recv_slot, res_slot, pre))
        return True, chosen, why

    def _alt_is_chosen(self, alt, info, post_t, recv_slot, res_slot, pre):
        post = json.loads(post_t)
        idx = {"A": 0, "B": 1, "C": 2}
        exp_g = pre[recv_slot] if alt["g"] == "=" else canon(alt["g"])
        if diff(canon(post[idx[recv_slot]]), exp_g):
            return False
        if alt["res"] != 0 and diff(canon(post[idx[res_slot]]), canon(alt["res"])):
            return False
        if alt["out"] == "ans" and interp.spec_answer(alt["ans"]) != interp.spec_answer(info["ans"]):
            return False
        return True

    def _same_graph(self, name, g, res, info, rep, pre_t):
        """the result of a JSON round trip / copy compares equal to the source and has its hash"""
        prop = {"json_roundtrip": "C15", "copy": "C10"}[name]
        pre0 = json.loads(pre_t)[{"A": 0, "B": 1, "C": 2}[{"A": "A", "B": "B", "C": "C", "AB": "A", "BA": "B", "BC": "B"}[info["slot"]]]]
        if isinstance(pre0, dict) and pre0.get("odd"):
            return
        self.same_graph_checks = getattr(self, "same_graph_checks", 0) + 1
        try:
            eq = (g == res) and (res == g)
            hs = (hash(g) == hash(res))
        except Exception as e:
            import traceback
            tb = traceback.format_exc(limit=-3)
            if "in reactant" in tb or "in product" in tb or "in _ts" in tb or "KeyError" in tb:
                return      # ill-formed reaction side / dangling descriptor: == may refuse (see spec)
            self.on_failure(Failure("same-graph", {prop}, f"{name}|eq-or-hash-raises|{type(e).__name__}",
                                    f"comparing a graph with its {name} result raised {type(e).__name__}",
                                    {"pre": json.loads(pre_t), "history": rep.hist, "traceback": tb}))
            return
        if type(res) is not type(g):
            self.on_failure(Failure("same-graph", {prop}, f"{name}|class-changed", f"{name} changed the class of the graph",
                                    {"pre": json.loads(pre_t)}))
        elif not eq:
            self.on_failure(Failure("same-graph", {prop}, f"{name}|result-unequal", f"the {name} result compares unequal to its source",
                                    {"pre": json.loads(pre_t), "history": rep.hist}))
        elif not hs:
            self.on_failure(Failure("same-graph", {prop}, f"{name}|result-hash-differs", f"the {name} result has a different hash",
                                    {"pre": json.loads(pre_t), "history": rep.hist}))

    def _eq_hash(self, old, objs, info, rep, post_t, tags):
        """two real objects standing for one abstract state: == and equal hash."""
        post = json.loads(post_t)
        for s, pg in zip(SLOTS, post[:3]):
            x, y = old.objs.get(s), objs.get(s)
            if x is None or y is None:
                continue
            if isinstance(pg, dict) and pg.get("odd"):
                continue        # the spec allows == / hash to refuse this graph
            self.eqhash_checks += 1
            try:
                e1, e2 = (x == y), (y == x)
                h1, h2 = hash(x), hash(y)
            except Exception as e:
                import traceback
                tb = traceback.format_exc(limit=-3)
                if "in reactant" in tb or "in product" in tb or "in _ts" in tb:
                    # a stereo change recorded on a bond that does not exist on that side of the
                    # reaction: reactant()/product() refuse it; no property covers such graphs
                    self.skipped_illformed = getattr(self, "skipped_illformed", 0) + 1
                    return
                self.on_failure(Failure("eqhash-raise", {"C01"} | ({"C11"} if "relabel" in tags | old.tags else set())
                                        | ({"C17"} if "algebra" in tags | old.tags else set()),
                                        f"eq-or-hash-raises|{type(e).__name__}|{old.proj[s]['kind']}",
                                        f"== or hash raised {type(e).__name__} on two objects built along different histories",
                                        {"state": json.loads(post_t), "hist1": old.hist, "hist2": rep.hist + [_short(info['op'])],
                                         "traceback": tb}))
                return
            if not (e1 is True and e2 is True):
                self.on_failure(Failure("eq-miss", {"C01"}, f"same-state-unequal|{old.proj[s]['kind']}",
                                        "two objects with identical labelled content built along different histories compare unequal",
                                        {"state": json.loads(post_t), "hist1": old.hist, "hist2": rep.hist + [_short(info['op'])]}))
            elif h1 != h2:
                self.on_failure(Failure("hash-miss", {"C03"}, f"same-state-different-hash|{old.proj[s]['kind']}",
                                        "two objects with identical labelled content built along different histories have different hashes",
                                        {"state": json.loads(post_t), "hist1": old.hist, "hist2": rep.hist + [_short(info['op'])]}))

    # ------------------------------------------------------------------
    def _report(self, info, rep, proj, bads, out, ans, why, var, pre_t, tags, recv_slot, res_slot):
        op = info["op"]
        name = op["name"]
        kind = rep.proj[recv_slot]["kind"] if rep.proj[recv_slot] else "-"
        allowed = sorted({a["out"] for a in info["alts"]})
        outk = out.split(":")[0]
        props = set()
        must_raise = allowed == ["raise"]
        lookup_absent = name in QUERIES and "raise" in allowed
        raised_but_changed = outk == "raise" and any("receiver differs" in w for w in why)
        if must_raise or lookup_absent or raised_but_changed:
            props.add("C19")
        if name in ("relabel_inplace", "relabel_copy") or "relabel" in tags:
            props.add("C11")
        if name in ("subgraph", "compose", "compose_components") or "algebra" in tags:
            props.add("C17")
        if name == "json_roundtrip":
            props.add("C15")
        if name in ("reactant", "product", "reverse"):
            props.add("C08")
        if name == "enantiomer":
            props.add("C06")
        moved_other = any("slot" in w and "changed although" in w for w in why)
        if moved_other or (name in DERIVERS and any("receiver differs" in w for w in why)):
            props.add("C10")
        if name in DERIVERS and name not in ("relabel_copy", "subgraph", "compose", "compose_components",
                                            "json_roundtrip", "reactant", "product", "reverse", "enantiomer"):
            props.add("C10")
        if not props or (name not in DERIVERS and not must_raise and not lookup_absent):
            props.add("C09")
        if moved_other and not bads:
            props = {"C10"}
        if bads:
            symptom = "incoherent:" + _generalise(next(iter(bads.values()))[0])
        elif must_raise and outk != "raise":
            symptom = "accepted-ill-formed-request"
        elif outk == "raise" and "raise" not in allowed:
            symptom = "raises:" + out.split(":")[1]
        elif any("changed although" in w for w in why):
            symptom = "other-slot-changed"
        else:
            diffs = sorted({w for w in why if "differs" in w or "answer" in w})
            symptom = _generalise(diffs[0]) if diffs else "no-allowed-outcome"
        pre_class = _pre_class(op, rep.proj[recv_slot])
        phase = "followup" if (tags and name not in DERIVERS) else "direct"
        sig = f"{name}|{kind}|{pre_class}|{symptom}|{phase}:{'+'.join(sorted(tags)) or '-'}"
        what = (f"{kind}.{name} [{pre_class}] -> {out}: {symptom}; allowed outcomes {allowed}")
        detail = {"pre": json.loads(pre_t), "slot": info["slot"], "op": _short(op), "variant": var,
                  "observed_out": out, "observed_ans": ans, "observed_proj": proj, "incoherent": bads,
                  "why_not": why[:8], "allowed": info["alts"], "history": rep.hist,
                  "idmap": self.idm.fwd}
        self.on_failure(Failure("transition", props, sig, what, detail))


def _short(op):
    base = {"name": op["name"]}
    for k, v in op.items():
        if k == "name":
            continue
        if v in (0, "", False, [], ["none", [], 2]):
            continue
        base[k] = v
    return base


def _generalise(text: str) -> str:
    import re
    t = re.sub(r"-?\d+", "N", text)
    t = re.sub(r"\[.*?\]", "[..]", t)
    return t[:90]


def _pre_class(op, g):
    """precondition class of the op with respect to the receiver (for signatures)."""
    if not g:
        return "-"
    atoms = {a[0] for a in g["atoms"]}
    bonds = {(b[0], b[1]) for b in g["bonds"]}
    n = op["name"]
    a, b = op["a"], op["b"]
    parts = []
    if n in ("add_atom", "remove_atom", "set_atom_attr", "del_atom_attr", "has_atom", "get_atom_type",
             "get_atom_attr", "bonded_to", "component_of", "get_atom_stereo", "del_atom_stereo",
             "get_atom_stereo_change", "del_atom_stereo_change"):
        parts.append("atom-present" if a in atoms else "atom-absent")
    elif b != 0 or n in ("add_bond", "remove_bond"):
        if a == b:
            parts.append("self-bond")
        elif a not in atoms or b not in atoms:
            parts.append("atom-absent")
        else:
            parts.append("bond-present" if (min(a, b), max(a, b)) in bonds else "bond-absent")
    if op["k"]:
        parts.append("k=" + op["k"])
    if op["e"] == 0 and n == "add_atom":
        parts.append("bad-element")
    if n == "subgraph":
        parts.append("S-subset" if set(op["S"]) <= atoms else "S-not-subset")
    return ",".join(parts) or "-"
