"""C20 - XYZ text round trip and distance connectivity.

text: MC_Xyz enumerates boundary documents; the harness writes them with xyz_str, reads them back with
      from_xyz and from_xyz_file; Obs_Xyz (TLC) decides each record.
connectivity: MC_Conn enumerates lattice geometries with the expected bond set in exact integer
      arithmetic; BondsFromDistance().array and MolGraph.from_geometry must agree, also after the 24
      lattice rotations, translations, atom permutations and random real rotations.
"""
from __future__ import annotations

import itertools
import json
import os
import random
import shutil
import tempfile
from decimal import Decimal, ROUND_HALF_EVEN

import numpy as np

from . import common, model, geom
from .common import Reporter, run_tlc, MachineryError

COMMENTS = [None, "", " x ", "#", "1 2 3", "C 0 0 0", "ångström ☃ 化学", "c" * 200, "3", "\t tab \t",
            # characters that mean something to str.format / % / regular expressions / shells
            '{"energy": -113.8}', "{} {0} {x!r}", "100% %s %(x)d", "\\n \\ $HOME `x` *"]
MODS = {"quick": {"xyz": 40, "conn": {2: 1, 3: 9, 4: 400, 5: 20000}, "pairs": 5},
        "thorough": {"xyz": 1, "conn": {2: 1, 3: 1, 4: 15, 5: 600}, "pairs": 1}}


def tlc_cases(module, consts, prefix):
    d = tempfile.mkdtemp(prefix="smg-c20-")
    try:
        cfg = os.path.join(d, "c.cfg")
        open(cfg, "w").write("SPECIFICATION Spec\nCONSTANTS\n" + "".join(f"  {k} = {v}\n" for k, v in consts.items())
                             + "CONSTRAINT Emit\nCHECK_DEADLOCK FALSE\n")
        res = run_tlc(module, cfg=cfg, workers=8, prefixes=(prefix,), timeout=1800)
    finally:
        shutil.rmtree(d, ignore_errors=True)
    common.tlc_ok(res, module)
    seen, out = set(), []
    for _, o in res.lines:
        k = json.dumps(o, sort_keys=True)
        if k not in seen:
            seen.add(k)
            out.append(o)
    return out, res


def triple_to_float(t):
    s, i, f = t
    return float(f"{'-' if s < 0 else ''}{i}.{f:09d}")


def float_to_triple(x):
    d = Decimal(float(x)).quantize(Decimal("0.000000001"), rounding=ROUND_HALF_EVEN)
    sign = -1 if (d.is_signed()) else 1
    d = abs(d)
    ip = int(d)
    fr = int((d - ip) * 10**9)
    return [sign, ip, fr]


def rotations24():
    out = []
    for perm in itertools.permutations(range(3)):
        for signs in itertools.product((1, -1), repeat=3):
            m = np.zeros((3, 3))
            for r in range(3):
                m[r, perm[r]] = signs[r]
            if round(np.linalg.det(m)) == 1:
                out.append(m)
    return out


def run(tier):
    rep = Reporter("C20", tier)
    from stereomolgraph.coords import Geometry, BondsFromDistance
    from stereomolgraph.periodic_table import SYMBOLS
    import stereomolgraph as smgmod
    MG = smgmod.MolGraph
    rnd = random.Random(common.seed() + 20)
    # ------------------------------ text ------------------------------
    xs, res1 = tlc_cases("MC_Xyz", {"SampleMod": MODS[tier]["xyz"], "NComments": len(COMMENTS) - 1}, "X")
    recs = []
    n_docs = 0
    symbols_seen = set()
    for c in xs:
        n_docs += 1
        els = c["els"]
        symbols_seen |= set(els)
        coords = np.array([[triple_to_float(t) for t in row] for row in c["coords"]], dtype=float)
        comment = COMMENTS[c["comment"]]
        det = {"case": c, "comment": comment}
        try:
            geo = Geometry(els, coords)
            text = geo.xyz_str(comment) if comment is not None else geo.xyz_str()
        except Exception as e:
            rep.violation(f"C20|xyz_str|raises:{type(e).__name__}|n={c['n']}", "xyz_str raised", det)
            continue
        det["text"] = text
        outs = []
        for how in ("from_xyz", "from_xyz_file"):
            try:
                if how == "from_xyz":
                    back = Geometry.from_xyz(text)
                else:
                    d = tempfile.mkdtemp(prefix="smg-xyz-")
                    try:
                        pth = os.path.join(d, "a.xyz")
                        with open(pth, "w", encoding="utf-8") as fh:
                            fh.write(text)
                        back = Geometry.from_xyz_file(pth)
                    finally:
                        shutil.rmtree(d, ignore_errors=True)
                outs.append((how, back))
            except Exception as e:
                cm = "none" if comment is None else ("empty" if comment == "" else "text")
                rep.violation(f"C20|{how}|raises:{type(e).__name__}|n={c['n']}|comment={cm}",
                              f"{how}(xyz_str(...)) raised {type(e).__name__} for a {c['n']}-atom geometry", det)
        for how, back in outs:
            bc = np.array(back.coords, dtype=float).reshape(-1, 3) if len(back.atom_types) else np.zeros((0, 3))
            pairs = []
            for k in range(min(len(els), bc.shape[0])):
                for ax in range(3):
                    pairs.append([c["coords"][k][ax], float_to_triple(bc[k][ax])])
            recs.append({"id": len(recs) + 1, "els_in": els, "els_out": [int(e) for e in back.atom_types],
                         "n_out": int(back.n_atoms), "pairs": pairs, "how": how, "case": c})
    ok = set()
    bad = {}
    if recs:
        d = tempfile.mkdtemp(prefix="smg-obsx-")
        try:
            path = os.path.join(d, "obs.ndjson")
            with open(path, "w") as f:
                for r in recs:
                    f.write(json.dumps({k: r[k] for k in ("id", "els_in", "els_out", "n_out", "pairs")}, separators=(",", ":")) + "\n")
            res = run_tlc("Obs_Xyz", cfg="Obs_Xyz.cfg", env={"OBS_FILE": path}, workers=16, prefixes=("OK", "BAD"), timeout=3000)
        finally:
            shutil.rmtree(d, ignore_errors=True)
        common.tlc_ok(res, "Obs_Xyz")
        for pre, o in res.lines:
            if pre == "OK":
                ok.add(int(o))
            else:
                bad[o["id"]] = o
        if (ok | set(bad)) != {r["id"] for r in recs}:
            raise MachineryError("Obs_Xyz did not visit every record")
    byid = {r["id"]: r for r in recs}
    for i, v in bad.items():
        r = byid[i]
        clause = next(c for c in ("count", "elements", "coords", "eightdec") if not v[c])
        rep.violation(f"C20|roundtrip|{r['how']}|{clause}|n={len(r['els_in'])}",
                      f"{r['how']}(xyz_str(g)) does not reproduce g: clause '{clause}'", {"record": r, "verdict": v})
    # --------------------------- connectivity ---------------------------
    rots = rotations24()
    n_conn = n_conn_eval = 0
    states = res1.distinct
    gen = res1.generated
    bond_sets = set()
    jobs = [(na, mod, "FALSE") for na, mod in MODS[tier]["conn"].items()] + [(2, MODS[tier]["pairs"], "TRUE")]
    for na, mod, pairmode in jobs:
        ks, res2 = tlc_cases("MC_Conn", {"NAtoms": na, "SampleMod": mod, "PairMode": pairmode}, "K")
        states += res2.distinct
        gen += res2.generated
        for c in ks:
            n_conn += 1
            els = c["els"]
            base = np.array(c["pts"], dtype=float) / 100.0
            want = {tuple(b) for b in c["bonds"]}       # 1-based index pairs i<j
            bond_sets.add((tuple(els), tuple(sorted(want))))
            variants = [("identity", base, list(range(na)))]
            if c.get("cut1000"):
                # all-element pair mode: additionally a pair just inside / just outside the cutoff (2e-5 A: far above the
                # rounding error of differences of doubles up to 1e6), placed far away from the origin
                cut = c["cut1000"] / 1000.0
                inside = bool(c["bonds"])
                d = cut - 2e-5 if inside else cut + 2e-5
                u = np.array([rnd.gauss(0, 1) for _ in range(3)])
                u /= np.linalg.norm(u)
                for T in (0.0, 1.0e3, 1.0e5, float(2**20) * 0.9):
                    t = np.array([T, -T / 3.0, T / 7.0])
                    near = np.array([t, t + u * d])
                    variants.append((f"near-cutoff@{int(T)}", near, [0, 1]))
            R = rots[rnd.randrange(24)]
            variants.append(("lattice-rotation", base @ R.T, list(range(na))))
            variants.append(("translation", base + np.array([rnd.randint(-500, 500) / 100.0 for _ in range(3)]), list(range(na))))
            perm = list(range(na))
            rnd.shuffle(perm)
            variants.append(("permutation", base[perm], perm))
            variants.append(("real-rotation", geom.rigid(base, rnd), list(range(na))))
            for kind, pts, perm in variants:
                n_conn_eval += 1
                e = [els[i] for i in perm]
                exp = set()
                for (i, j) in want:
                    a, b = perm.index(i - 1), perm.index(j - 1)
                    exp.add((min(a, b), max(a, b)))
                det = {"case": c, "variant": kind, "coords": pts.tolist(), "elements": e, "expected_bonds": sorted(exp)}
                try:
                    arr = BondsFromDistance().array(pts, e)
                    g = MG.from_geometry(Geometry(e, pts))
                except Exception as ex:
                    rep.violation(f"C20|connectivity|raises:{type(ex).__name__}|{kind}", "connectivity perception raised", det)
                    continue
                arr = np.array(arr)
                got = {(i, j) for i in range(na) for j in range(i + 1, na) if arr[i][j]}
                if arr.shape != (na, na) or not (arr == arr.T).all():
                    rep.violation(f"C20|connectivity|not-symmetric|{kind}", "connectivity matrix is not symmetric", det)
                elif any(arr[i][i] for i in range(na)):
                    rep.violation(f"C20|connectivity|self-bond|{kind}", "connectivity matrix has a self bond", det)
                elif got != exp:
                    rep.violation(f"C20|connectivity|wrong-bonds|{kind}",
                                  "bonded pairs differ from d < 1.2 (r_i + r_j)", {**det, "got": sorted(got)})
                gb = {tuple(sorted(b)) for b in g.bonds}
                if gb != exp:
                    rep.violation(f"C20|from_geometry|wrong-bonds|{kind}", "MolGraph.from_geometry bonds differ from the distance criterion",
                                  {**det, "got": sorted(gb)})
    cov = {
        "states": states, "transitions": gen,
        "traces_validated_against_impl": len(recs) + n_conn_eval,
        "evaluations": len(recs) + n_conn_eval,
        "distinct_nontrivial": len(bond_sets) + n_docs,
        "rule": "documents = (n in 1..4, run of consecutive elements, boundary coordinate walk, comment) from MC_Xyz, each read back "
                "through from_xyz and from_xyz_file and decided by Obs_Xyz; lattice geometries with expected bond sets from MC_Conn, "
                "each also rotated (24 lattice rotations sampled), translated, permuted and rotated by a random real rotation; "
                "distinct_nontrivial = distinct documents + distinct (elements, bond set) geometries",
        "documents": n_docs, "roundtrip_records": len(recs), "roundtrip_accepted": len(ok),
        "element_symbols_covered": len(symbols_seen), "connectivity_cases": n_conn, "connectivity_evaluations": n_conn_eval,
        "samples": [xs[0] if xs else "none", {"els": list(next(iter(bond_sets))[0]), "bonds": list(next(iter(bond_sets))[1])} if bond_sets else "none"],
        "exhaustive": False,
    }
    return rep.finish("exploration", cov, [
        "covalent radii of the elements used by MC_Conn are transcribed from Pyykko & Atsumi (2009) into the spec",
        "a rounding tie at the 9th decimal may go either way; one unit of the 9th decimal is granted for binary representation at 1e6",
        "multi-frame XYZ files and comments containing line breaks are outside the property",
    ])
