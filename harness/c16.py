from . import isochecks


def run(tier):
    return isochecks.run("C16", tier)
