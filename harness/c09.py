from . import edit
def run(tier): return edit.run("C09", tier)
