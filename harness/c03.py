from . import isochecks


def run(tier):
    return isochecks.run("C03", tier)
