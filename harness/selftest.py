"""Binding self-tests (run by ./check setup): a corrupted record must be rejected by the trace
specifications, and an untouched one accepted - guards against vacuous validators."""
from __future__ import annotations

import copy

from . import drive, rdk, model


def trace_edit_rejects_corruption():
    recs, _, _ = drive.generate(12345, 240, kinds=("SMG", "SCRG"), hist_len=120)
    victims = [r for r in recs if r["out"] == "ok" and r["post"]["bonds"] and r["op"]["name"] in ("add_bond", "add_atom", "set_atom_attr")]
    assert victims, "no suitable record"
    v1 = victims[0]
    v2 = victims[-1]
    recs2 = copy.deepcopy(recs)
    byid = {r["id"]: r for r in recs2}
    byid[v1["id"]]["post"]["bonds"] = byid[v1["id"]]["post"]["bonds"][1:]          # drop a bond from the post state
    byid[v2["id"]]["out"] = "raise"                                                  # lie about the outcome
    # a query answer that disagrees with the state (active_atoms / role_bonds / bonded_to)
    qs = [r for r in recs if r["op"]["name"] in ("active_atoms", "role_bonds", "bonded_to") and r["out"] == "ans"
          and r["ans"].get("t") == "ids"]
    v3 = None
    for r in qs:
        if r["id"] not in (v1["id"], v2["id"]):
            v3 = r
            a3 = byid[v3["id"]]["ans"]
            a3["s"] = a3["s"][1:] if a3["s"] else [424242]        # drop an atom, or invent one
            break
    ok, bad, _ = drive.validate(recs2)
    ok0, bad0, _ = drive.validate(recs)
    problems = []
    if v3 is None:
        problems.append("no query record with a set answer to corrupt")
    elif v3["id"] not in bad or bad[v3["id"]]["answer"]:
        problems.append("shortened query answer not rejected by clause answer")
    if v1["id"] not in bad or bad[v1["id"]]["post"]:
        problems.append("dropped bond not rejected by clause post")
    if v2["id"] not in bad or bad[v2["id"]]["outcome"]:
        problems.append("wrong outcome class not rejected by clause outcome")
    # uncorrupted records keep their verdict
    if set(bad) - {v1["id"], v2["id"]} - ({v3["id"]} if v3 else set()) != set(bad0):
        problems.append("corruption changed the verdict of other records")
    return problems


def obs_descr_rejects_flip():
    a = ["Tetrahedral", [1, 2, 3, 4, 5], 1]
    recs = [{"id": 1, "a": a, "b": ["Tetrahedral", [1, 3, 4, 2, 5], 1], "same": True},
            {"id": 2, "a": a, "b": ["Tetrahedral", [1, 3, 4, 2, 5], -1], "same": True},      # flipped parity: must be BAD
            {"id": 3, "a": a, "b": ["Tetrahedral", [1, 3, 2, 4, 5], -1], "same": True},
            {"id": 4, "a": ["AtropBond", [1, 2, 3, 4, 5, 6], 1], "b": ["AtropBond", [5, 6, 4, 3, 1, 2], 1], "same": True},
            {"id": 5, "a": ["AtropBond", [1, 2, 3, 4, 5, 6], 1], "b": ["AtropBond", [5, 6, 4, 3, 2, 1], 1], "same": True}]  # S4: BAD
    ok, bad = rdk.validate("Obs_Descr", recs, ("id", "a", "b", "same"), workers=2)
    return [] if (ok == {1, 3, 4} and set(bad) == {2, 5}) else [f"Obs_Descr verdicts wrong: ok={sorted(ok)} bad={sorted(bad)}"]


def design_theorems():
    """TLC evaluates the ASSUMEs of MC_RefineDesign (own colour sound, without it unsound)"""
    from .common import run_tlc
    res = run_tlc("MC_RefineDesign", cfg="MC_RefineDesign.cfg", workers=2, timeout=600)
    tail = "\n".join(res.raw_tail)
    return [] if (res.rc == 0 and "Error" not in tail) else ["MC_RefineDesign: " + tail[-600:]]


def vf2_trace_rejects_corruption():
    """a recorded run of the real VF2++ loop is accepted; with one candidate removed from one logged stack frame, or one
    event's chosen candidate changed, the replay stops at that event"""
    import random
    from . import vf2trace
    model.init()
    pairs = [p for p in vf2trace.random_pairs(random.Random(5), 40, 5)]
    recs, _ = vf2trace.record_all(pairs)
    recs = [r for r in recs if len(r["events"]) >= 6][:6]
    if len(recs) < 3:
        return ["vf2 selftest: tracer recorded too few runs"]
    bad = copy.deepcopy(recs)
    k1 = next(i for i, e in enumerate(bad[0]["events"]) if e["ev"] == "try")
    bad[0]["events"][k1]["v"] += 1                                   # another candidate than the one taken
    k2 = len(bad[1]["events"]) // 2
    st = bad[1]["events"][k2]["state"]
    st["fr2"] = st["fr2"][1:] if st["fr2"] else [bad[1]["inst"]["n2"][0]]     # frontier bookkeeping off by one atom
    v0, _ = vf2trace.replay(recs)
    v1, _ = vf2trace.replay(bad)
    problems = []
    for r in recs:
        if v0[r["tid"]]["reached"] != v0[r["tid"]]["len"]:
            problems.append("vf2: untouched run %d not accepted" % r["tid"])
    if v1[bad[0]["tid"]]["reached"] != k1:
        problems.append("vf2: changed candidate accepted past event %d (reached %d)" % (k1, v1[bad[0]["tid"]]["reached"]))
    if v1[bad[1]["tid"]]["reached"] != k2:
        problems.append("vf2: corrupted frontier accepted past event %d (reached %d)" % (k2, v1[bad[1]["tid"]]["reached"]))
    for r in recs[2:]:
        if v1[r["tid"]]["reached"] != v1[r["tid"]]["len"]:
            problems.append("vf2: corruption changed the verdict of another run")
    return problems


def main():
    problems = trace_edit_rejects_corruption() + obs_descr_rejects_flip() + design_theorems() + vf2_trace_rejects_corruption()
    for p in problems:
        print("SELFTEST FAILED:", p)
    print("selftest:", "ok" if not problems else "FAILED")
    return 0 if not problems else 2
