"""Operation interpreter: maps a spec op record (JSON of SMGEmit.OpJ) to the
public call on a real object.  Returns (out, ans, res):
  out  "ok" | "raise:<Type>" | "ans"
  ans  normalised answer {"t":..,...} for queries
  res  derived object (or None)
No semantics here: only the calling convention of the public API.
"""
from __future__ import annotations

import json
import warnings

warnings.filterwarnings("ignore")
try:
    from rdkit import RDLogger
    RDLogger.DisableLog("rdApp.*")
except Exception:
    pass

from . import model
from .model import NOATOM, NOPAR, IdMap, mk_descr, descr_json


class NotDriven(Exception):
    pass


def _ans_none():
    return {"t": "none"}


def norm_answer(name, val, idm: IdMap):
    """normalise a real return value into the spec's answer shape."""
    if val is None:
        return {"t": "none"}
    if isinstance(val, bool):
        return {"t": "bool", "b": val}
    if name in ("get_atom_type",):
        return {"t": "int", "i": int(val)}
    if isinstance(val, (set, frozenset)):
        return {"t": "ids", "s": sorted(idm.b(x) for x in val)}
    if hasattr(val, "atoms") and hasattr(val, "parity"):
        return {"t": "descr", "d": descr_json(val, idm)}
    if name in ("get_atom_stereo_change", "get_bond_stereo_change"):
        ent = sorted([c.value, descr_json(d, idm)] for c, d in val.items() if d is not None)
        return {"t": "chg", "c": ent}
    try:
        import numbers
        if isinstance(val, numbers.Integral):
            return {"t": "int", "i": int(val)}
    except Exception:
        pass
    return {"t": "other", "repr": repr(val)[:80]}


def spec_answer(aj):
    """answer of the spec (AnsJ) in the same normal form."""
    t = aj["t"]
    if t == "none":
        return {"t": "none"}
    if t == "bool":
        return {"t": "bool", "b": aj["b"]}
    if t == "int":
        return {"t": "int", "i": aj["i"]}
    if t == "ids":
        return {"t": "ids", "s": sorted(aj["s"])}
    if t == "descr":
        return {"t": "descr", "d": aj["d"]}
    if t == "chg":
        return {"t": "chg", "c": sorted(aj["c"])}
    return {"t": t}


def answers_match(obs, exp):
    if exp["t"] == "any":
        return True
    if exp["t"] == "none" and obs["t"] == "chg" and obs["c"] == []:
        return False
    return obs == exp


ITER_KINDS = ("list", "set", "tuple", "iter", "numpy")


def as_iterable(ids, kind):
    if kind == "list":
        return list(ids)
    if kind == "set":
        return set(ids)
    if kind == "tuple":
        return tuple(ids)
    if kind == "iter":
        return iter(list(ids))
    if kind == "gen":
        return (x for x in list(ids))
    if kind == "numpy":
        import numpy as np
        ids = list(ids)
        if all(isinstance(x, int) and abs(x) < 2**62 for x in ids):
            return np.array(ids, dtype=np.int64)      # an iterable of numpy integers equal to the identifiers
        return ids
    raise ValueError(kind)


def apply(g, op, idm: IdMap, other=None, swap=False, iter_kind="list"):
    """Execute op on g.  swap: give (b, a) instead of (a, b) for bond calls."""
    model.init()
    n = op["name"]
    a, b = idm.f(op["a"]) if op["a"] in idm.fwd else op["a"], idm.f(op["b"]) if op["b"] in idm.fwd else op["b"]
    if swap:
        a2, b2 = b, a
    else:
        a2, b2 = a, b
    k, v = op["k"], op["v"]
    CH = model.CHANGE
    res = None
    val = None
    is_query = False
    try:
        if n == "add_atom":
            kw = {k: v} if k else {}
            g.add_atom(a, op["e"], **kw)
        elif n == "remove_atom":
            g.remove_atom(a)
        elif n == "add_bond":
            kw = {k: v} if k else {}
            if op["ch"] not in ("none", ""):
                kw["reaction"] = CH[op["ch"]]
            g.add_bond(a2, b2, **kw)
        elif n == "add_formed_bond":
            g.add_formed_bond(a2, b2)
        elif n == "add_broken_bond":
            g.add_broken_bond(a2, b2)
        elif n == "add_fleeting_bond":
            g.add_fleeting_bond(a2, b2)
        elif n == "add_bond_badrole":
            g.add_bond(a2, b2, reaction="formed")
        elif n == "set_bond_badrole":
            g.set_bond_attribute(a2, b2, "reaction", 1)
        elif n == "add_formed_badrole":
            g.add_formed_bond(a2, b2, reaction="formed")
        elif n == "add_broken_badrole":
            g.add_broken_bond(a2, b2, reaction="broken")
        elif n == "add_fleeting_badrole":
            g.add_fleeting_bond(a2, b2, reaction=1)
        elif n == "bonds_from_matrix":
            import numpy as np
            order = list(g.atoms)
            pos = {x: i for i, x in enumerate(order)}
            mat = np.zeros((len(order), len(order)))
            for c in op["S"]:
                lo, hi = idm.f(c // 10), idm.f(c % 10)
                mat[pos[lo], pos[hi]] = mat[pos[hi], pos[lo]] = 1.0
            if op["flag"] and order:
                k = pos[min(order, key=lambda x: idm.b(x))]
                mat[k, k] = 1.0
            g.bonds_from_bond_order_matrix(mat)
        elif n == "remove_bond":
            g.remove_bond(a2, b2)
        elif n == "set_atom_attr":
            g.set_atom_attribute(a, k, v)
        elif n == "del_atom_attr":
            g.delete_atom_attribute(a, k)
        elif n == "set_bond_attr":
            g.set_bond_attribute(a2, b2, k, v)
        elif n == "set_bond_role":
            g.set_bond_attribute(a2, b2, "reaction", CH[op["ch"]])
        elif n == "del_bond_attr":
            g.delete_bond_attribute(a2, b2, k)
        elif n == "del_bond_role":
            g.delete_bond_attribute(a2, b2, "reaction")
        elif n == "set_atom_stereo":
            g.set_atom_stereo(mk_descr(op["d"], idm))
        elif n == "del_atom_stereo":
            g.delete_atom_stereo(a)
        elif n == "set_bond_stereo":
            g.set_bond_stereo(mk_descr(op["d"], idm))
        elif n == "del_bond_stereo":
            g.delete_bond_stereo((a2, b2))
        elif n in ("set_atom_stereo_change", "set_bond_stereo_change"):
            kw = {}
            made = {}         # equal descriptors given for two roles are passed as ONE object
            for key, f in (("broken", "db"), ("fleeting", "dl"), ("formed", "df")):
                if op[f][0] != "none":
                    sig = json.dumps(op[f])
                    if sig not in made:
                        made[sig] = mk_descr(op[f], idm)
                    kw[key] = made[sig]
            getattr(g, n)(**kw)
        elif n == "del_atom_stereo_change":
            if op["ch"]:
                g.delete_atom_stereo_change(a, CH[op["ch"]])
            else:
                g.delete_atom_stereo_change(a)
        elif n == "del_bond_stereo_change":
            if op["ch"]:
                g.delete_bond_stereo_change((a2, b2), CH[op["ch"]])
            else:
                g.delete_bond_stereo_change((a2, b2))
        elif n == "relabel_inplace":
            m = {idm.f(x): idm.f(y) for x, y in op["m"]}
            r = g.relabel_atoms(m, copy=False)
        # ------------------------------ queries ------------------------------
        elif n == "has_atom":
            is_query, val = True, g.has_atom(a)
        elif n == "has_bond":
            is_query, val = True, g.has_bond(a2, b2)
        elif n == "n_atoms":
            is_query, val = True, g.n_atoms
        elif n == "get_atom_type":
            is_query, val = True, g.get_atom_type(a)
        elif n == "get_atom_attr":
            is_query, val = True, g.get_atom_attribute(a, k)
            if k == "atom_type" and val is not None:
                val = int(val)
        elif n == "get_bond_attr":
            is_query, val = True, g.get_bond_attribute(a2, b2, k)
        elif n == "bonded_to":
            is_query, val = True, frozenset(g.bonded_to(a))
        elif n == "component_of":
            is_query, val = True, frozenset(g.node_connected_component(a))
        elif n == "n_components":
            is_query, val = True, len(g.connected_components())
        elif n == "role_bonds":
            fn = {"formed": g.get_formed_bonds, "broken": g.get_broken_bonds, "fleeting": g.get_fleeting_bonds}[op["ch"]]
            bs = [tuple(bb) for bb in fn()]
            if any(len(set(bb)) != 2 for bb in bs):
                raise AssertionError("a role-bond getter returned something that is not a pair of atoms")
            is_query, val = True, (len(set(map(frozenset, bs))) if op["flag"] else frozenset(x for bb in bs for x in bb))
        elif n == "active_atoms":
            is_query, val = True, frozenset(g.active_atoms(additional_layer=1 if op["flag"] else 0))
        elif n == "get_atom_stereo":
            is_query, val = True, g.get_atom_stereo(a)
        elif n == "get_bond_stereo":
            is_query, val = True, g.get_bond_stereo((a2, b2))
        elif n == "get_atom_stereo_change":
            is_query, val = True, g.get_atom_stereo_change(a)
        elif n == "get_bond_stereo_change":
            is_query, val = True, g.get_bond_stereo_change((a2, b2))
        elif n == "is_stereo_valid":
            is_query, val = True, g.is_stereo_valid()
        elif n == "eq_self":
            is_query, val = True, bool(g == g)
        elif n == "eq_copy":
            is_query, val = True, bool(g == g.copy()) and bool(g.copy() == g)
        elif n == "hash":
            is_query, val = True, hash(g)
        elif n == "str":
            is_query, val = True, len(str(g)) + len(repr(g))
        elif n == "to_json":
            from stereomolgraph.experimental import JSONHandler
            is_query, val = True, len(JSONHandler.json_serialize(g))
        elif n == "to_rdmol":
            is_query = True
            m, _ = g._to_rdmol(generate_bond_orders=False)
            val = m.GetNumAtoms()
        # ---------------------------- derivations ----------------------------
        elif n == "copy":
            res = g.copy()
        elif n == "json_roundtrip":
            from stereomolgraph.experimental import JSONHandler
            res = JSONHandler.json_deserialize(JSONHandler.json_serialize(g))
        elif n == "copy_mod":
            res = g.copy()
            if len(res.atoms):
                la = min(res.atoms, key=lambda x: idm.b(x))
                res.set_atom_attribute(la, "atom_type", 1 if int(res.get_atom_type(la)) == 6 else 6)
                res.set_atom_attribute(la, "q", 8)
            if len(res.bonds):
                # the spec's LeastBond orders bonds by lo + 10 * hi of the model identifiers
                lb = min((sorted(bd, key=lambda x: idm.b(x)) for bd in res.bonds),
                         key=lambda p_: idm.b(p_[0]) + 10 * idm.b(p_[1]))
                res.set_bond_attribute(lb[0], lb[1], "w", 8)
        elif n == "copy_ctor":
            res = model.KIND_CLASS[op["tk"]](g)
        elif n == "relabel_copy":
            m = {idm.f(x): idm.f(y) for x, y in op["m"]}
            res = g.relabel_atoms(m, copy=True)
        elif n == "subgraph":
            res = g.subgraph(as_iterable([idm.f(x) for x in op["S"]], iter_kind))
        elif n == "enantiomer":
            res = g.enantiomer()
        elif n == "reverse":
            res = g.reverse_reaction()
        elif n == "reactant":
            res = g.reactant(keep_attributes=op["flag"])
        elif n == "product":
            res = g.product(keep_attributes=op["flag"])
        elif n == "compose":
            # the pieces are an Iterable: alternately a list and a one-shot iterator (deterministic in the operands)
            pieces = [g, other]
            one_shot = (len(g.bonds) + len(other.atoms)) % 2 == 1
            res = model.KIND_CLASS[op["tk"]].compose(iter(pieces) if one_shot else pieces)
        elif n == "compose_components":
            parts = [g.subgraph(c) for c in g.connected_components()]
            res = type(g).compose((p for p in parts) if len(parts) % 2 == 0 else parts)
        else:
            raise NotDriven(n)
    except NotDriven:
        raise
    except Exception as e:
        return "raise:" + type(e).__name__, None, None
    if is_query:
        return "ans", norm_answer(n, val, idm), None
    return "ok", None, res
