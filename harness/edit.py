"""Runs profiles of spec/MC_Edit.tla under TLC and replays every printed
transition on the real classes (harness.replay).  Serves C09, C19, C10, C11,
C17 (and contributes to C15, C08, C06, C01, C03)."""
from __future__ import annotations

import json
import multiprocessing as mp
import os
import tempfile
import time

from . import common
from .common import Reporter, run_tlc, MachineryError
from .replay import Engine

ALL_DERIVE = ["copy", "json_roundtrip", "copy_ctor", "relabel_copy", "subgraph", "enantiomer",
              "reverse", "reactant", "product", "compose_components"]
# derivations applied to a DERIVED graph (a derived graph must be as usable as a freshly built one)
SECOND = ["copy", "json_roundtrip", "enantiomer", "reverse", "reactant", "product"]
ALGEBRA = ["subgraph", "compose", "compose_components", "copy_mod", "enantiomer", "reactant"]


def P(kind, n, maxa, seeds, withq, derive, relabel, followup, gen_n=2, subsets="few", follow="focus", second=()):
    return dict(Kind=kind, N=n, MaxA=maxa, SeedSet=seeds, WithQ=withq, DeriveSet=derive,
                RelabelMode=relabel, FollowUp=followup, GenN=gen_n, SubsetMode=subsets, FollowMode=follow,
                SecondSet=list(second))


# name -> (quick profile, thorough profile)
PROFILES = {
    # editing histories with queries and rejected requests (C09, C19)
    "E1": (P("MG", 3, 3, "empty", True, [], "few", False), P("MG", 3, 4, "empty", True, [], "few", False)),
    "E2": (P("CRG", 3, 2, "empty", True, [], "few", False), P("CRG", 3, 3, "empty", True, [], "few", False)),
    "E3": (P("SMG", 4, 2, "stereo", True, [], "few", False), P("SMG", 4, 3, "stereo", True, [], "few", False)),
    "E4": (P("SCRG", 4, 2, "stereo", True, [], "few", False), P("SCRG", 4, 3, "stereo", True, [], "few", False)),
    # derivations + one follow-up edit on either side (C10, C15, C08, C06)
    "D1": (P("MG", 3, 0, "gen", False, ALL_DERIVE, "few", True), P("MG", 3, 1, "gen", False, ALL_DERIVE, "few", True)),
    "D2": (P("CRG", 2, 0, "gen", False, ALL_DERIVE, "few", True), P("CRG", 3, 0, "gen", False, ALL_DERIVE, "few", True)),
    "D3": (P("SMG", 4, 0, "stereo", False, ALL_DERIVE, "few", True, second=SECOND), P("SMG", 4, 1, "stereo", False, ALL_DERIVE, "few", True, second=SECOND)),
    "D4": (P("SCRG", 4, 0, "stereo", False, ALL_DERIVE, "few", True, second=SECOND), P("SCRG", 4, 1, "stereo", False, ALL_DERIVE, "few", True, second=SECOND)),
    # relabelling with every injective partial map, then follow-up (C11)
    "R1": (P("MG", 3, 0, "gen", True, ["relabel_copy"], "all", True, second=SECOND), P("MG", 3, 1, "gen", True, ["relabel_copy"], "all", True, second=SECOND)),
    "R2": (P("CRG", 2, 0, "gen", True, ["relabel_copy"], "all", True, second=SECOND), P("CRG", 3, 0, "gen", True, ["relabel_copy"], "all", True, second=SECOND)),
    "R3": (P("SMG", 4, 0, "stereo", True, ["relabel_copy"], "all", True, second=SECOND), P("SMG", 4, 1, "stereo", True, ["relabel_copy"], "all", True, second=SECOND)),
    "R4": (P("SCRG", 4, 0, "stereo", True, ["relabel_copy"], "all", True, second=SECOND), P("SCRG", 4, 1, "stereo", True, ["relabel_copy"], "all", True, second=SECOND)),
    # several descriptors on neighbouring keys, every renaming in place and into a copy (key collisions: swaps, shifts)
    "R5": (P("SMG", 4, 0, "multi", True, ["relabel_copy", "copy"], "all", True), P("SMG", 4, 1, "multi", True, ["relabel_copy", "copy"], "all", True)),
    "R6": (P("SCRG", 4, 0, "multi", True, ["relabel_copy", "copy"], "all", True), P("SCRG", 4, 1, "multi", True, ["relabel_copy", "copy"], "all", True)),
    # enantiomer (C06), JSON (C15), reactant/product/reverse (C08) from every state within MaxA edits of the seeds
    "X3": (P("SMG", 4, 1, "stereo", False, ["enantiomer"], "none", True), P("SMG", 4, 2, "stereo", False, ["enantiomer"], "none", True)),
    "X4": (P("SCRG", 4, 1, "stereo", False, ["enantiomer"], "none", True), P("SCRG", 4, 2, "stereo", False, ["enantiomer"], "none", True)),
    "J1": (P("MG", 3, 1, "gen", False, ["json_roundtrip"], "none", False), P("MG", 3, 2, "gen", False, ["json_roundtrip"], "none", False, gen_n=3)),
    "J2": (P("CRG", 3, 1, "gen", False, ["json_roundtrip"], "none", False), P("CRG", 3, 2, "gen", False, ["json_roundtrip"], "none", False)),
    "J3": (P("SMG", 4, 1, "stereo", False, ["json_roundtrip"], "none", False), P("SMG", 4, 2, "stereo", False, ["json_roundtrip"], "none", False)),
    "J4": (P("SCRG", 4, 1, "stereo", False, ["json_roundtrip"], "none", False), P("SCRG", 4, 2, "stereo", False, ["json_roundtrip"], "none", False)),
    "V2": (P("CRG", 3, 0, "gen", False, ["reactant", "product", "reverse"], "none", True), P("CRG", 3, 2, "gen", False, ["reactant", "product", "reverse"], "none", True)),
    "V4": (P("SCRG", 4, 0, "stereo", False, ["reactant", "product", "reverse"], "none", True), P("SCRG", 4, 2, "stereo", False, ["reactant", "product", "reverse"], "none", True)),
    # compose of a graph with a (modified) copy, then every edit on the composed graph / the sources (C10, C17): the
    # deepest phase of the machine, which the breadth-first S profiles reach last (and not at all when truncated)
    "K3": (P("SMG", 4, 0, "stereo", False, ["copy", "copy_mod", "compose"], "none", True, follow="all"),
           P("SMG", 4, 1, "stereo", False, ["copy", "copy_mod", "compose"], "none", True, follow="all")),
    "K4": (P("SCRG", 4, 0, "stereo", False, ["copy", "copy_mod", "compose"], "none", True, follow="all"),
           P("SCRG", 4, 1, "stereo", False, ["copy", "copy_mod", "compose"], "none", True, follow="all")),
    # overlapping covers: a graph composed with each of its induced subgraphs, in both orders (C17)
    "K5": (P("SCRG", 4, 0, "stereo", False, ["subgraph", "compose"], "none", True, subsets="all", follow="none"),
           P("SCRG", 4, 1, "stereo", False, ["subgraph", "compose"], "none", True, subsets="all", follow="none")),
    # mixed classes: a reaction graph composed with its own reactant / product / converted copy, in both orders (C17)
    "K6": (P("SCRG", 4, 0, "stereo", False, ["reactant", "product", "copy_ctor", "compose"], "none", True, follow="none"),
           P("SCRG", 4, 1, "stereo", False, ["reactant", "product", "copy_ctor", "compose"], "none", True, follow="none")),
    # subgraph / compose / components (C17)
    "S1": (P("MG", 3, 0, "gen", True, ALGEBRA, "none", True, subsets="all"),
           P("MG", 3, 1, "gen", True, ALGEBRA, "none", True, subsets="all")),
    "S2": (P("CRG", 2, 0, "gen", True, ALGEBRA, "none", True, subsets="all"),
           P("CRG", 3, 0, "gen", True, ALGEBRA, "none", True, subsets="all")),
    "S3": (P("SMG", 4, 0, "stereo", True, ALGEBRA, "none", True, subsets="all"),
           P("SMG", 4, 1, "stereo", True, ALGEBRA, "none", True, subsets="all")),
    "S4": (P("SCRG", 4, 0, "stereo", True, ALGEBRA, "none", True, subsets="all"),
           P("SCRG", 4, 1, "stereo", True, ALGEBRA, "none", True, subsets="all")),
}

# (max transitions replayed, max seconds) per profile; a truncated profile is reported as such
CAPS = {"quick": (60000, 75), "thorough": (1500000, 1500)}

PROP_PROFILES = {
    "C09": ["E1", "E2", "E3", "E4"],
    "C19": ["E1", "E2", "E3", "E4"],
    "C10": ["D1", "D2", "D3", "D4", "S3", "S4", "K3", "K4"],
    "C11": ["R5", "R6", "R1", "R2", "R3", "R4"],
    "C17": ["K5", "K6", "S1", "S2", "S3", "S4", "K4"],
    "C06": ["X3", "X4"],
    "C15": ["J1", "J2", "J3", "J4"],
    "C08": ["V2", "V4"],
}


def cfg_text(p):
    def val(v):
        if isinstance(v, bool):
            return "TRUE" if v else "FALSE"
        if isinstance(v, int):
            return str(v)
        if isinstance(v, str):
            return json.dumps(v)
        if isinstance(v, (list, tuple, set)):
            return "{" + ", ".join(json.dumps(x) for x in v) + "}"
        raise TypeError(v)
    lines = ["SPECIFICATION Spec", "CONSTANTS"]
    for k, v in p.items():
        lines.append(f"  {k} = {val(v)}")
    lines += ["CONSTRAINT EmitI", "ACTION_CONSTRAINT EmitT", "VIEW View",
              "INVARIANT TypeOK", "INVARIANT CoherentInv", "PROPERTY StepInv", "CHECK_DEADLOCK FALSE"]
    return "\n".join(lines) + "\n"


def run_profile(args):
    name, tier, seed, workers = args
    prof = PROFILES[name][0 if tier == "quick" else 1]
    fails = []

    def on_failure(f):
        if len(fails) < 4000:
            fails.append({"kind": f.kind, "props": sorted(f.props), "sig": f.sig, "what": f.what,
                          "detail": f.detail if len(fails) < 400 else {}})

    eng = Engine(prof["N"], seed * 1000 + sum(map(ord, name)), on_failure)
    d = tempfile.mkdtemp(prefix="smg-edit-")
    cfg = os.path.join(d, f"{name}.cfg")
    with open(cfg, "w") as f:
        f.write(cfg_text(prof))

    cap = CAPS[tier]
    t_start = time.time()
    seen_lines = [0]

    def on_line(pre, obj):
        if pre == "I":
            eng.add_initial(obj)
        else:
            eng.transition(obj)
            seen_lines[0] += 1
            if eng.n_trans >= cap[0] or (seen_lines[0] % 256 == 0 and time.time() - t_start > cap[1]):
                raise Budget()

    # the I| payload is valid JSON and would be parsed by run_tlc; keep raw text instead
    t0 = time.time()
    try:
        res = run_tlc_raw("MC_Edit", cfg, workers, on_line)
    finally:
        import shutil
        shutil.rmtree(d, ignore_errors=True)
    tail = "\n".join(res.raw_tail)
    if res.rc != 0 or "Error:" in tail:
        return {"name": name, "error": f"TLC rc={res.rc}\n{tail[-2500:]}"}
    truncated = bool(res.raw_tail and res.raw_tail[-1] == "BUDGET")
    return {"name": name, "profile": prof, "truncated": truncated, "states": res.distinct or len(eng.reps), "generated": max(res.generated, eng.n_trans),
            "transitions_replayed": eng.n_trans, "skipped": eng.n_skipped, "initial": eng.n_init,
            "by_op": eng.by_op, "by_out": eng.by_out, "loose": eng.loose_taken,
            "eqhash": eng.eqhash_checks, "reps": len(eng.reps), "samples": eng.samples,
            "iter_kinds": sorted(eng.iter_kinds_used), "fails": fails, "wall": time.time() - t0,
            "idmap": eng.idm.fwd}


class Budget(Exception):
    pass


def run_tlc_raw(module, cfg, workers, on_line, deadline=None):
    """like common.run_tlc but hands the raw payload text to on_line."""
    import subprocess, shutil, re
    meta = tempfile.mkdtemp(prefix="smg-tlc-")
    cmd = ["java", "-XX:+UseParallelGC", "-Xmx6g", "-cp",
           "/opt/veriftools/tla/tla2tools.jar:/opt/veriftools/tla/CommunityModules-deps.jar",
           "tlc2.TLC", "-workers", str(workers), "-metadir", meta, "-noGenerateSpecTE",
           "-config", cfg, module + ".tla"]
    t0 = time.time()
    tail = []
    gen = dist = 0
    try:
        p = subprocess.Popen(cmd, cwd=str(common.SPEC), stdout=subprocess.PIPE, stderr=subprocess.STDOUT,
                             text=True, bufsize=1 << 22)
        for raw in p.stdout:
            if raw.startswith('"T|') or raw.startswith('"I|'):
                s = json.loads(raw)
                try:
                    on_line(s[0], s[2:])
                except Budget:
                    p.kill()
                    p.wait()
                    return common.TlcResult([], gen, dist, time.time() - t0, 0, tail + ["BUDGET"])
                continue
            m = common._STAT_RE.search(raw)
            if m:
                gen, dist = int(m.group(1)), int(m.group(2))
            tail.append(raw.rstrip("\n"))
            if len(tail) > 80:
                tail.pop(0)
        rc = p.wait()
    finally:
        shutil.rmtree(meta, ignore_errors=True)
    return common.TlcResult([], gen, dist, time.time() - t0, rc, tail)


def run_profiles(names, tier, parallel=4):
    seed = common.seed()
    workers = max(2, 16 // max(1, min(parallel, len(names))))
    jobs = [(n, tier, seed, workers) for n in names]
    if len(jobs) == 1:
        return [run_profile(jobs[0])]
    out = []
    with mp.Pool(min(parallel, len(jobs))) as pool:
        for r in pool.imap_unordered(run_profile, jobs, chunksize=1):
            if os.environ.get("VERIF_VERBOSE"):
                print("  profile", r.get("name"), "done:", r.get("transitions_replayed"), "transitions,",
                      "truncated" if r.get("truncated") else "complete", flush=True)
            out.append(r)
    out.sort(key=lambda r: names.index(r["name"]))
    return out


def repo_suite_traces(prop, tier, rep):
    """run (part of) the repository's own tests under the out-of-tree recorder and let TLC validate every
    recorded public call (the CCF lesson: existing tests trigger what their assertions miss)"""
    import random
    import subprocess
    import sys
    import tempfile
    import shutil
    from . import drive
    d = tempfile.mkdtemp(prefix="smg-suite-")
    repo = os.environ.get("VERIF_REPO", "/repo")
    tests = (["tests/unit/test_graph.py", "tests/unit/test_json_handler.py", "tests/unit/algorithms"] if tier == "quick"
             else ["tests/unit", "tests/hypothesis"])
    try:
        path = os.path.join(d, "rec.ndjson")
        env = dict(os.environ, VERIF_RECORD_FILE=path,
                   PYTHONPATH=str(common.VERIF) + os.pathsep + os.environ.get("PYTHONPATH", ""))
        p = subprocess.run([sys.executable, "-m", "pytest", "-q", "-x", "-p", "harness.recorder_plugin", "-p", "no:cacheprovider",
                            "--timeout=900", *tests], cwd=repo, env=env, capture_output=True, text=True, timeout=1800)
        tail = (p.stdout or "").strip().splitlines()[-1:] or [""]
        recs = [json.loads(l) for l in open(path)] if os.path.exists(path) else []
    finally:
        shutil.rmtree(d, ignore_errors=True)
    for k, r in enumerate(recs):
        r["id"] = k + 1
    out = {"pytest": tail[0][:120], "pytest_rc": p.returncode, "recorded": len(recs), "validated": 0, "accepted": 0}
    if p.returncode != 0:
        rep.note("the repository's tests did not pass under the recorder (" + tail[0][:100] + "); traces of the passing part are still validated")
    if not recs:
        return out
    rnd = random.Random(common.seed() + 3)
    if tier == "quick" and len(recs) > 3000:
        recs = rnd.sample(recs, 3000)
        for k, r in enumerate(recs):
            r["id"] = k + 1
    ok, bad, _ = drive.validate(recs)
    byid = {r["id"]: r for r in recs}
    for i, b in bad.items():
        r = byid[i]
        if not b["driven"]:
            continue
        props, sig, what = classify_record(r, b)
        if prop in props:
            rep.violation(f"{prop}|suite-trace|{sig}", what + f" [recorded in {r.get('test', '?')[:80]}]", {"record": r, "verdict": b})
    for r in recs:
        if r.get("incoherent"):
            props, sig, what = classify_record(r, None)
            if prop in props:
                rep.violation(f"{prop}|suite-trace|{sig}", what, {"record": r})
    out.update(validated=len(recs), accepted=len(ok))
    return out


REJECTS = {"add_bond_badrole", "set_bond_badrole", "add_formed_badrole", "add_broken_badrole", "add_fleeting_badrole"}
QUERY_NAMES = None


def classify_record(r, verdict):
    """which properties a rejected trace record speaks about + a stable signature."""
    from .replay import QUERIES, DERIVERS
    name = r["op"]["name"]
    kind = r["pre"]["kind"]
    allowed = sorted(verdict["allowed"]) if verdict else []
    props = set()
    must_raise = allowed == ["raise"]
    raised_but_changed = r.get("out") == "raise" and verdict is not None and verdict.get("outcome") and not verdict.get("post")
    if must_raise or (name in QUERIES and "raise" in allowed) or raised_but_changed or \
            (verdict is None and r.get("out") in ("raise", "ans")):
        props.add("C19")
    if name in ("relabel_inplace", "relabel_copy"):
        props.add("C11")
    if name in ("subgraph", "compose", "compose_components"):
        props.add("C17")
    if name == "json_roundtrip":
        props.add("C15")
    if name in ("reactant", "product", "reverse"):
        props.add("C08")
    if name == "enantiomer":
        props.add("C06")
    if name in ("copy", "copy_ctor"):
        props.add("C10")
    if not props or (name not in DERIVERS and not must_raise):
        props.add("C09")
    if verdict is None:
        clause = "views-disagree:" + _gen(r.get("incoherent", ["?"])[0])
        if name in DERIVERS and name not in ("json_roundtrip", "reactant", "product", "reverse", "enantiomer"):
            props |= {"C10"} if name in ("copy", "copy_ctor") else set()
    else:
        clause = next((k for k in ("outcome", "post", "result", "answer", "coherent") if not verdict[k]), "?")
    sig = f"{name}|{kind}|{r['exc']}|{clause}|allowed={'+'.join(allowed)}"
    what = (f"{kind}.{name} recorded outcome {r['exc']}: clause '{clause}' of Trace_Edit rejected the record "
            f"(allowed outcome classes {allowed})")
    return props, sig, what


def _gen(t):
    import re
    return re.sub(r"\[.*?\]", "[..]", re.sub(r"-?\d+", "N", t))[:80]


def run(prop: str, tier: str) -> int:
    rep = Reporter(prop, tier)
    cov = collect(prop, tier, rep)
    return rep.finish("model_checking", cov, ASSUMPTIONS)


ASSUMPTIONS = [
    "the reference semantics of every public operation is spec/SMGEdit.tla (Outcomes); under-specified behaviour is an "
    "explicit set of allowed outcomes",
    "bounded universes (3-4 identifiers, 2 elements, one attribute, fixed descriptor menu); depth bound per profile",
    "only public views are projected; descriptors are compared literally (class, atom tuple, parity)",
]


def collect(prop: str, tier: str, rep: Reporter, with_traces=True) -> dict:
    names = PROP_PROFILES[prop]
    results = run_profiles(names, tier)
    states = trans = replayed = 0
    by_op = {}
    samples = []
    loose = {}
    nontrivial = set()
    eqhash = 0
    for r in results:
        if "error" in r:
            raise MachineryError(f"profile {r['name']}: {r['error']}")
        tot_lines = r["transitions_replayed"] + r["skipped"]
        if tot_lines and r["transitions_replayed"] < 0.4 * tot_lines and not any(prop in f["props"] for f in r["fails"]):
            # most transitions had no source representative although nothing failed: the harness lost track of states
            raise MachineryError(f"profile {r['name']}: only {r['transitions_replayed']} of {tot_lines} generated transitions "
                                 f"were executed (coverage collapse in the replay engine)")
        states += r["states"]
        trans += r["generated"]
        replayed += r["transitions_replayed"]
        eqhash += r["eqhash"]
        for k, v in r["by_op"].items():
            by_op[k] = by_op.get(k, 0) + v
            nontrivial.add((r["profile"]["Kind"], k))
        for k, v in r["loose"].items():
            loose[k] = loose.get(k, 0) + v
        samples += r["samples"][:2]
        if r["skipped"]:
            rep.note(f"profile {r['name']}: {r['skipped']} transitions skipped (their source state has no real "
                     f"representative: it is reached only through an allowed outcome the implementation does not take, or the "
                     f"transition creating it failed)")
        for f in r["fails"]:
            if prop in f["props"]:
                rep.violation(f"{prop}|{f['sig']}", f["what"], {"profile": r["name"], **f["detail"]})
    # ---------------- code -> spec: random histories validated by TLC ----------------
    from . import drive
    n_steps = {"quick": 6000, "thorough": 150000}[tier] if with_traces else 0
    t_tr = time.time()
    chunk = 30000
    n_rec = n_ok = n_undriven = 0
    trace_ops = {}
    tr_samples = []
    for ci, start in enumerate(range(0, n_steps, chunk)):
        recs, alias, incoh = drive.generate(common.seed() * 7919 + ci + 1, min(chunk, n_steps - start))
        ok, bad, res = drive.validate(recs)
        byid = {r["id"]: r for r in recs}
        n_rec += len(recs)
        n_ok += len(ok)
        for r in recs:
            trace_ops[r["op"]["name"]] = trace_ops.get(r["op"]["name"], 0) + 1
        if not tr_samples:
            tr_samples = [{k: recs[i][k] for k in ("op", "out", "pre", "post")} for i in (5, len(recs) // 2)]
            for smp in tr_samples:
                smp["op"] = {k: v for k, v in smp["op"].items() if v not in (0, "", False, [], drive.NOD)}
        for i, b in bad.items():
            r = byid[i]
            if not b["driven"]:
                n_undriven += 1
                continue
            props, sig, what = classify_record(r, b)
            if prop in props:
                rep.violation(f"{prop}|trace|{sig}", what, {"record": r, "verdict": b})
        for a in alias:
            if prop == "C10":
                r = a["rec"]
                rep.violation(f"C10|trace|{r['op']['name']}|{r['post']['kind']}|other-object-changed",
                              f"an object that was not the receiver of {r['op']['name']} changed (shared mutable state)", a)
        for r in incoh:
            props, sig, what = classify_record(r, None)
            if prop in props:
                rep.violation(f"{prop}|trace|{sig}", what, {"record": r})
    # ---------------- stage 3: the repository's own test-suite, recorded and validated ----------------
    suite = {"records": 0}
    if with_traces and (tier == "thorough" or prop in ("C09", "C19")):
        suite = repo_suite_traces(prop, tier, rep)
        n_rec += suite["validated"]
        n_ok += suite["accepted"]
    cov_trace = {"repository_test_suite": suite, "records": n_rec, "accepted": n_ok, "not_driven": n_undriven, "by_operation": trace_ops,
                 "wall_s": round(time.time() - t_tr, 1), "samples": tr_samples}
    cov = {
        "trace_validation": cov_trace,
        "states": states,
        "transitions": trans,
        "traces_validated_against_impl": replayed + n_rec,
        "evaluations": replayed + n_rec,
        "distinct_nontrivial": len(nontrivial),
        "rule": "every transition generated by TLC in the listed MC_Edit profiles (bounded universes) is executed on a real "
                "object obtained by a genuine history; distinct_nontrivial = distinct (class, operation) pairs exercised",
        "profiles": {r["name"]: {**r["profile"], "states": r["states"], "transitions": r["generated"],
                                 "replayed": r["transitions_replayed"], "wall_s": round(r["wall"], 1)} for r in results},
        "by_operation": by_op,
        "loose_branches_taken": loose,
        "same_state_eq_hash_checks": eqhash,
        "samples": samples[:6],
        "exhaustive": False,
    }
    return cov
