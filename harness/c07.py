"""C07 - perception from coordinates depends only on the 3D shape.

E  (spec -> code): MC_Geom enumerates placements of identifiers on the idealised figures x the 24
   lattice rotations x reflection, with every spelling of the expected descriptor.  The harness turns a
   case into real coordinates (bond length = sum of covalent radii, noise, random rigid motion, atoms
   handed over in a shuffled order) and calls atom_stereo_from_coords and StereoMolGraph.from_geometry.
R  (code -> spec): XYZ corpus + template complexes under rigid motion / atom permutation /
   reflection; Obs_Meta (TLC) checks g1 = Relabel(g0, sigma) resp. its Enantiomer with sigma as witness.
"""
from __future__ import annotations

import glob
import json
import os
import random
import shutil
import tempfile

import numpy as np

from . import common, model, geom, drive
from .common import Reporter, run_tlc, MachineryError
from .model import IdMap, project

CLASSES = {"Tetrahedral": (6, [1, 9, 17, 35]), "SquarePlanar": (78, [1, 9, 17, 35]),
           "TrigonalBipyramidal": (15, [1, 9, 17, 35, 8]), "Octahedral": (27, [1, 9, 17, 35, 8, 7])}
MODS = {"quick": {"Tetrahedral": 4, "SquarePlanar": 4, "TrigonalBipyramidal": 16, "Octahedral": 120},
        "thorough": {"Tetrahedral": 1, "SquarePlanar": 1, "TrigonalBipyramidal": 2, "Octahedral": 12}}


def cases(cls, mod):
    d = tempfile.mkdtemp(prefix="smg-geom-")
    try:
        cfg = os.path.join(d, "g.cfg")
        open(cfg, "w").write("SPECIFICATION Spec\nCONSTANTS\n  Cls = \"%s\"\n  SampleMod = %d\nCONSTRAINT Emit\nCHECK_DEADLOCK FALSE\n"
                             % (cls, mod))
        res = run_tlc("MC_Geom", cfg=cfg, workers=8, prefixes=("M",), timeout=1800)
    finally:
        shutil.rmtree(d, ignore_errors=True)
    common.tlc_ok(res, "MC_Geom " + cls)
    seen, out = set(), []
    for _, o in res.lines:
        k = (tuple(o["atoms"]), json.dumps(o["coords"]))
        if k not in seen:
            seen.add(k)
            out.append(o)
    return out, res


def xyz_corpus():
    from stereomolgraph.coords import Geometry
    out = []
    for f in sorted(glob.glob(str(common.VERIF / "corpus" / "xyz" / "*.xyz"))):
        try:
            txt = open(f).read()
            n = int(txt.split()[0])
            lines = txt.splitlines()
            if len([l for l in lines[2:] if l.strip()]) != n:
                continue      # multi-frame file: outside the property
            g = Geometry.from_xyz(txt)
            out.append((os.path.basename(f), g))
        except Exception:
            continue
    return out


def run(tier):
    rep = Reporter("C07", tier)
    model.init()
    from stereomolgraph.xyz2graph import atom_stereo_from_coords
    from stereomolgraph.coords import Geometry
    import stereomolgraph as smgmod
    SMG = smgmod.StereoMolGraph
    SCRG = smgmod.StereoCondensedReactionGraph
    rnd = random.Random(common.seed() + 7)
    states = gen = 0
    n_cases = n_direct = n_whole = n_skip = 0
    samples = []
    classes_seen = set()
    for cls, (centre_el, lig_pool) in CLASSES.items():
        cs, res = cases(cls, MODS[tier][cls])
        states += res.distinct
        gen += res.generated
        for c in cs:
            n_cases += 1
            n = len(c["atoms"])
            ids = c["atoms"]                      # ids[k] = identifier on position k (ids[0] = centre = 1)
            coords_by_id = {i: np.array(p, dtype=float) for i, p in c["coords"]}
            spell = {(tuple(s[0]), s[1]) for s in c["spellings"]}
            classes_seen.add((cls, min(spell)))
            lig_ids = [i for i in ids if i != 1]
            c_el = centre_el
            els = {1: centre_el}
            pool = lig_pool[:]
            rnd.shuffle(pool)
            for k, i in enumerate(sorted(lig_ids)):
                els[i] = pool[k % len(pool)]
            if cls == "SquarePlanar" and n_cases % 3 == 0:
                # strongly heteroleptic planar centre: two short bonds trans to each other, two long ones (planar CH2I2):
                # a cis ligand is then farther away than the trans one
                c_el = 6
                els = {1: 6, ids[1]: 1, ids[3]: 1, ids[2]: 53, ids[4]: 53}
            # ---- (1) atom_stereo_from_coords with arbitrary identifiers and handing order ----
            order = lig_ids[:]
            rnd.shuffle(order)
            pts = geom.star_geometry(c_el, [coords_by_id[i] - coords_by_id[1] for i in order],
                                     [els[i] for i in order], rnd)
            pts = geom.rigid(pts, rnd)
            okgp = geom.subset_clear(list(pts[1:]))
            if not okgp:
                n_skip += 1
                continue
            cmap = rnd.sample(range(100, 999), n)
            idm = IdMap({i: cmap[k] for k, i in enumerate([1] + sorted(lig_ids))})
            atoms = tuple(idm.f(i) for i in [1] + order)
            det = {"case": {k: c[k] for k in ("cls", "atoms", "par", "mirror", "coords")}, "order": order,
                   "atoms_given": list(atoms), "coords_given": pts.tolist(), "idmap": idm.fwd}
            n_direct += 1
            try:
                d = atom_stereo_from_coords(atoms, pts)
            except Exception as e:
                rep.violation(f"C07|atom_stereo_from_coords|{cls}|raises:{type(e).__name__}",
                              f"atom_stereo_from_coords raised {type(e).__name__} on an idealised {cls} figure", det)
                d = "raised"
            if d != "raised":
                if d is None:
                    rep.violation(f"C07|atom_stereo_from_coords|{cls}|no-descriptor", f"no descriptor perceived for a {cls} figure", det)
                else:
                    obs = (tuple(idm.b(a) for a in d.atoms), d.parity)
                    det["observed"] = [type(d).__name__, [str(x) for x in obs[0]], obs[1]]
                    if type(d).__name__ != cls:
                        rep.violation(f"C07|atom_stereo_from_coords|{cls}|wrong-class:{type(d).__name__}",
                                      f"a {cls} figure is perceived as {type(d).__name__}", det)
                    elif any(isinstance(a, tuple) for a in obs[0]):
                        rep.violation(f"C07|atom_stereo_from_coords|{cls}|foreign-identifiers",
                                      f"the perceived {cls} descriptor is not expressed in the identifiers that were handed in", det)
                    elif obs not in spell:
                        rep.violation(f"C07|atom_stereo_from_coords|{cls}|wrong-arrangement|mirror={c['mirror']}",
                                      f"the perceived {cls} descriptor denotes another spatial arrangement than the figure", det)
            # ---- (2) whole molecule through from_geometry, centre at a random index ----
            seq = [1] + lig_ids
            rnd.shuffle(seq)
            index_of = {i: k for k, i in enumerate(seq)}
            pts2 = geom.star_geometry(c_el, [coords_by_id[i] - coords_by_id[1] for i in lig_ids], [els[i] for i in lig_ids], rnd)
            pts2 = geom.rigid(pts2, rnd)
            by_id = {1: pts2[0]}
            for k, i in enumerate(lig_ids):
                by_id[i] = pts2[k + 1]
            arr = np.array([by_id[i] for i in seq])
            el_seq = [els[i] for i in seq]
            okg, why = geom.general_position(el_seq, arr)
            if not okg:
                n_skip += 1
                continue
            n_whole += 1
            det2 = {"case": {k: c[k] for k in ("cls", "atoms", "par", "mirror")}, "index_of": index_of, "elements": el_seq,
                    "coords": arr.tolist()}
            try:
                g = SMG.from_geometry(Geometry(el_seq, arr))
            except Exception as e:
                rep.violation(f"C07|from_geometry|{cls}|raises:{type(e).__name__}", f"from_geometry raised on a {cls} complex", det2)
                continue
            idm2 = IdMap({i: index_of[i] for i in seq})
            pj, bad = project(g, idm2)
            det2["observed"] = pj
            want_bonds = sorted([min(1, i), max(1, i)] for i in lig_ids)
            got_bonds = sorted([b[0], b[1]] for b in pj["bonds"])
            if bad:
                rep.violation(f"C07|from_geometry|{cls}|views-disagree", "projection of a perceived graph is incoherent: " + bad[0], det2)
            elif got_bonds != want_bonds:
                rep.note(f"{cls} complex: distance connectivity is not the star ({len(got_bonds)} bonds); case skipped")
                n_skip += 1
            else:
                ast = {a: d for a, d in pj["ast"]}
                if set(ast) != {1} or pj["bst"]:
                    rep.violation(f"C07|from_geometry|{cls}|descriptor-set", f"unexpected set of descriptors for a {cls} complex", det2)
                else:
                    dcls, datoms, dpar = ast[1]
                    if dcls != cls or (tuple(datoms), dpar) not in spell:
                        bad_ids = any(isinstance(a, list) or isinstance(a, tuple) for a in datoms)
                        rep.violation(f"C07|from_geometry|{cls}|{'foreign-identifiers' if bad_ids else 'wrong-descriptor'}",
                                      f"from_geometry perceives {dcls}{datoms},{dpar} for a {cls} figure", det2)
                    try:
                        if not g.is_stereo_valid():
                            rep.violation(f"C07|from_geometry|{cls}|not-stereo-valid", "perceived graph is not stereo-valid", det2)
                    except Exception as e:
                        rep.violation(f"C07|from_geometry|{cls}|is_stereo_valid-raises", "is_stereo_valid raised on a perceived graph", det2)
            if len(samples) < 4 and n_cases % 37 == 1:
                samples.append(det)

    # ---------------- planar bonds: X(Y)C=C(Z)W templates, also strained angles ----------------
    import math
    n_planar = 0
    pcs, pres = cases("PlanarBond", 1 if tier == "thorough" else 6)
    states += pres.distinct
    gen += pres.generated
    r_cov = geom.radii()
    for c in pcs:
        if c["mirror"]:
            continue          # achiral: the reflected figure is the same case
        T = c["atoms"]        # T[k-1] = identifier on figure position k; positions 3, 4 are the bond atoms
        spell = {(tuple(s_[0]), s_[1]) for s_ in c["spellings"]}
        # (angle of the substituents on the +y side, angle of those on the -y side) with the C=C bond; unequal angles at
        # one end occur in small rings (cyclopropene: about 150 and 64 degrees)
        sym = [(t, t) for t in ((120.0,) if tier == "quick" and n_planar % 3 else (112.0, 120.0, 128.0, 140.0, 150.0))]
        asym = [(150.0, 75.0), (168.0, 80.0), (80.0, 165.0)] if (tier != "quick" or n_planar % 3 == 0) else []
        for theta, theta_b in sym + asym:
            strained = theta > 130 or theta_b > 130
            sub_els = [1, 9, 1, 9] if strained or rnd.random() < 0.3 else rnd.sample([1, 9, 17, 35], 4)
            if theta != theta_b:
                sub_els = [9, 1, 9, 1] if theta_b < 90 else [1, 9, 1, 9]     # the small atom on the narrow side (no extra bond)
            el_of = {T[2]: 6, T[3]: 6, T[0]: sub_els[0], T[1]: sub_els[1], T[4]: sub_els[2], T[5]: sub_els[3]}
            if el_of[T[0]] == el_of[T[1]] or el_of[T[4]] == el_of[T[5]]:
                continue
            dcc = 1.34
            pos = {T[2]: np.array([-dcc / 2, 0, 0]), T[3]: np.array([dcc / 2, 0, 0])}
            th = math.radians(theta)
            for k, (end, sx, sy) in {0: (T[2], -1, 1), 1: (T[2], -1, -1), 4: (T[3], 1, 1), 5: (T[3], 1, -1)}.items():
                L = r_cov[6] + r_cov[el_of[T[k]]]
                # angle theta between the C=C bond and the C-X bond
                tk = th if sy > 0 else math.radians(theta_b)
                pos[T[k]] = pos[end] + L * np.array([-sx * math.cos(tk), sy * math.sin(tk), 0.0])
            seq = list(pos)
            rnd.shuffle(seq)
            arr = np.array([pos[i] for i in seq]) + np.array([[rnd.uniform(-0.01, 0.01) for _ in range(3)] for _ in seq])
            arr = geom.rigid(arr, rnd)
            el_seq = [el_of[i] for i in seq]
            okg, why = geom.general_position(el_seq, arr)
            if not okg:
                n_skip += 1
                continue
            index_of = {i: k for k, i in enumerate(seq)}
            det = {"case": {"cls": "PlanarBond", "atoms": T}, "theta": [theta, theta_b], "elements": el_seq, "coords": arr.tolist(), "index_of": index_of}
            try:
                g = SMG.from_geometry(Geometry(el_seq, arr))
            except Exception as e:
                rep.violation(f"C07|from_geometry|PlanarBond|raises:{type(e).__name__}", "from_geometry raised on an alkene template", det)
                continue
            idm2 = IdMap({i: index_of[i] for i in seq})
            pj, bad = project(g, idm2)
            want_bonds = sorted(sorted(p_) for p_ in ([T[2], T[3]], [T[0], T[2]], [T[1], T[2]], [T[4], T[3]], [T[5], T[3]]))
            if sorted([b[0], b[1]] for b in pj["bonds"]) != want_bonds:
                n_skip += 1
                continue
            n_planar += 1
            n_whole += 1
            bst = {(b[0], b[1]): b[2] for b in pj["bst"]}
            key = tuple(sorted((T[2], T[3])))
            d = bst.get(key)
            det["observed"] = pj["bst"]
            if d is None or len(bst) != 1 or pj["ast"]:
                rep.violation(f"C07|from_geometry|PlanarBond|descriptor-set|strained={strained}",
                              "an alkene template is not perceived as exactly one planar bond", det)
            elif d[0] != "PlanarBond" or (tuple(d[1]), d[2]) not in spell:
                rep.violation(f"C07|from_geometry|PlanarBond|wrong-arrangement|strained={strained}",
                              f"cis/trans of the perceived planar bond is wrong (C=C-X angle {theta})", det)
    # ---------------- metamorphic part on the XYZ corpus ----------------
    recs = []
    n_meta_skip = 0
    corpus = xyz_corpus()
    reps = 3 if tier == "quick" else 25
    rid = 0
    for name, g0geo in corpus:
        els = list(g0geo.atom_types)
        ok0, why = geom.general_position(els, g0geo.coords)
        if not ok0:
            n_meta_skip += 1
            continue
        try:
            g0 = SMG.from_geometry(g0geo)
        except Exception as e:
            rep.violation(f"C07|from_geometry|xyz:{name}|raises:{type(e).__name__}", f"from_geometry raised on {name}", {"file": name})
            continue
        ident = drive.IDM
        p0, bad0 = project(g0, ident)
        n = len(els)
        for k in range(reps):
            mirror = (k % 3 == 2)
            perm = list(range(n))
            if k % 3 != 0:
                rnd.shuffle(perm)           # new index j holds old atom perm[j]
            c1 = geom.rigid(g0geo.coords, rnd)
            if mirror:
                c1 = geom.reflect(c1)
            c1 = c1[perm]
            e1 = [els[i] for i in perm]
            ok1, _ = geom.general_position(e1, c1)
            if not ok1:
                n_meta_skip += 1
                continue
            try:
                g1 = SMG.from_geometry(Geometry(e1, c1))
            except Exception as e:
                rep.violation(f"C07|from_geometry|xyz:{name}|raises-after-transform:{type(e).__name__}",
                              "from_geometry raised on a rigidly moved / permuted copy", {"file": name, "perm": perm, "mirror": mirror})
                continue
            p1, bad1 = project(g1, ident)
            rid += 1
            sigma = [[perm[j], j] for j in range(n)]      # old id -> new id
            recs.append({"id": rid, "g0": drive.gjson(p0), "g1": drive.gjson(p1), "sigma": sigma, "mirror": mirror,
                         "file": name, "perm": perm})
    # distorted four-coordinate centres (see-saw, hemispherical, random): any non-planar arrangement is perceived as
    # Tetrahedral and the result must not depend on the order of the atoms
    n_dist = 12 if tier == "quick" else 80
    r_cov2 = geom.radii()
    made = 0
    attempts = 0
    while made < n_dist and attempts < 2000:
        attempts += 1
        kind_d = attempts % 3
        if kind_d == 0:      # see-saw: trigonal bipyramid without one equatorial ligand
            dirs = [np.array(v, dtype=float) for v in ((0, 0, 1), (0, 0, -1), (1, 0, 0), (-0.5, 0.866, 0))]
        elif kind_d == 1:    # all ligands in one hemisphere (umbrella)
            dirs = [np.array([math.cos(a) * 0.9, math.sin(a) * 0.9, 0.45]) for a in (0.3, 1.9, 3.4, 5.0)]
        else:
            dirs = [np.array([rnd.gauss(0, 1) for _ in range(3)]) for _ in range(4)]
        dirs = [v / np.linalg.norm(v) + np.array([rnd.uniform(-0.08, 0.08) for _ in range(3)]) for v in dirs]
        dirs = [v / np.linalg.norm(v) for v in dirs]
        if min(float(np.dot(dirs[i], dirs[j])) for i in range(4) for j in range(i)) > math.cos(math.radians(50)):
            continue
        if any(float(np.dot(dirs[i], dirs[j])) > math.cos(math.radians(50)) for i in range(4) for j in range(i)):
            continue
        centre_el = rnd.choice([16, 34, 52, 14])
        lig = rnd.sample([1, 9, 17, 35], 4)
        pts = np.array([np.zeros(3)] + [d * (r_cov2[centre_el] + r_cov2[e]) for d, e in zip(dirs, lig)])
        els = [centre_el] + lig
        ok0, _ = geom.general_position(els, pts)
        if not ok0:
            continue
        try:
            g0 = SMG.from_geometry(Geometry(els, pts))
        except Exception:
            continue          # an arrangement the perception refuses: not judged
        p0, _ = project(g0, drive.IDM)
        if len(p0["bonds"]) != 4 or not p0["ast"]:
            continue
        made += 1
        for k in range(4 if tier == "quick" else 10):
            mirror = (k % 3 == 2)
            perm = list(range(5))
            rnd.shuffle(perm)
            c1 = geom.rigid(pts, rnd)
            if mirror:
                c1 = geom.reflect(c1)
            c1 = c1[perm]
            e1 = [els[i] for i in perm]
            if not geom.general_position(e1, c1)[0]:
                continue
            try:
                g1 = SMG.from_geometry(Geometry(e1, c1))
            except Exception as e:
                rep.violation(f"C07|from_geometry|distorted-4-coordinate|raises-after-transform:{type(e).__name__}",
                              "from_geometry raised on a permuted copy of a geometry it accepted", {"elements": els, "coords": pts.tolist()})
                continue
            p1, _ = project(g1, drive.IDM)
            rid += 1
            recs.append({"id": rid, "g0": drive.gjson(p0), "g1": drive.gjson(p1), "sigma": [[perm[j], j] for j in range(5)],
                         "mirror": mirror, "file": f"distorted-4-coordinate:{('see-saw', 'umbrella', 'random')[kind_d]}", "perm": perm})
    # six-coordinate centres that are NOT octahedra (trigonal prism, capped shapes): whatever is perceived must not depend
    # on the order of the atoms, and the mirror image must give the enantiomer
    n6 = 6 if tier == "quick" else 40
    made6 = 0
    attempts = 0
    while made6 < n6 and attempts < 600:
        attempts += 1
        if attempts % 2:       # trigonal prism with a random twist of up to 15 degrees
            tw = math.radians(rnd.uniform(0, 15))
            h = 0.66
            dirs = [np.array([math.cos(a), math.sin(a), h]) for a in (0.0, 2.094, 4.189)] + \
                   [np.array([math.cos(a + tw), math.sin(a + tw), -h]) for a in (0.0, 2.094, 4.189)]
        else:                  # random six directions
            dirs = [np.array([rnd.gauss(0, 1) for _ in range(3)]) for _ in range(6)]
        dirs = [v / np.linalg.norm(v) + np.array([rnd.uniform(-0.03, 0.03) for _ in range(3)]) for v in dirs]
        dirs = [v / np.linalg.norm(v) for v in dirs]
        if any(float(np.dot(dirs[i], dirs[j])) > math.cos(math.radians(55)) for i in range(6) for j in range(i)):
            continue
        centre_el = rnd.choice([42, 74, 26])
        lig = rnd.sample([1, 9, 17, 35, 53, 8, 7], 6)
        pts = np.array([np.zeros(3)] + [d * (r_cov2[centre_el] + r_cov2[e]) for d, e in zip(dirs, lig)])
        els = [centre_el] + lig
        if not geom.general_position(els, pts)[0]:
            continue
        try:
            g0 = SMG.from_geometry(Geometry(els, pts))
        except Exception:
            continue          # an arrangement the perception refuses: not judged
        p0, _ = project(g0, drive.IDM)
        if len(p0["bonds"]) != 6:
            continue
        made6 += 1
        for k in range(6 if tier == "quick" else 12):
            mirror = (k % 3 == 2)
            perm = list(range(7))
            rnd.shuffle(perm)
            c1 = geom.rigid(pts, rnd)
            if mirror:
                c1 = geom.reflect(c1)
            c1 = c1[perm]
            e1 = [els[i] for i in perm]
            if not geom.general_position(e1, c1)[0]:
                continue
            try:
                g1 = SMG.from_geometry(Geometry(e1, c1))
            except Exception as e:
                rep.violation(f"C07|from_geometry|distorted-6-coordinate|raises-after-transform:{type(e).__name__}",
                              "from_geometry raised on a permuted copy of a geometry it accepted", {"elements": els, "coords": pts.tolist()})
                continue
            p1, _ = project(g1, drive.IDM)
            rid += 1
            recs.append({"id": rid, "g0": drive.gjson(p0), "g1": drive.gjson(p1), "sigma": [[perm[j], j] for j in range(7)],
                         "mirror": mirror, "file": f"distorted-6-coordinate:{('random', 'prism')[attempts % 2]}", "perm": perm})
    # reactions: reactant / product / TS moved independently
    triples = [("tests__unit__data__methylamine_phosgenation_trans_r.xyz", "tests__unit__data__methylamine_phosgenation_trans_p.xyz",
                "tests__unit__data__methylamine_phosgenation_trans_ts.xyz"),
               ("tests__unit__data__fluoro_chloro_bromomethane_r.xyz", "tests__unit__data__fluoro_chloro_bromomethane_s.xyz",
                "tests__unit__data__fluoro_chloro_bromomethane_ts.xyz"),
               ("examples__react.xyz", "examples__prod.xyz", "examples__TS_trans.xyz"),
               ("examples__react.xyz", "examples__prod.xyz", "examples__TS_cis.xyz")]
    cdict = dict(corpus)
    for tr in triples:
        if not all(t in cdict for t in tr):
            continue
        geos = [cdict[t] for t in tr]
        if len({len(g.atom_types) for g in geos}) != 1 or len({tuple(g.atom_types) for g in geos}) != 1:
            continue
        if not all(geom.general_position(list(g.atom_types), g.coords)[0] for g in geos):
            n_meta_skip += 1
            continue
        try:
            x0 = SCRG.from_geometries(*geos)
        except Exception as e:
            rep.note(f"from_geometries raised {type(e).__name__} on {tr[0]}: not judged")
            continue
        p0, _ = project(x0, drive.IDM)
        n = len(geos[0].atom_types)
        els = list(geos[0].atom_types)
        for k in range(reps):
            mirror = (k % 3 == 2)
            perm = list(range(n))
            if k % 3 != 0:
                rnd.shuffle(perm)
            moved = []
            okall = True
            for g in geos:
                c1 = geom.rigid(g.coords, rnd)          # each geometry moved independently
                if mirror:
                    c1 = geom.reflect(c1)
                c1 = c1[perm]
                okall &= geom.general_position([els[i] for i in perm], c1)[0]
                moved.append(Geometry([els[i] for i in perm], c1))
            if not okall:
                n_meta_skip += 1
                continue
            try:
                x1 = SCRG.from_geometries(*moved)
            except Exception as e:
                rep.violation(f"C07|from_geometries|{tr[0]}|raises-after-transform:{type(e).__name__}",
                              "from_geometries raised on independently moved geometries", {"files": tr, "perm": perm})
                continue
            p1, _ = project(x1, drive.IDM)
            rid += 1
            recs.append({"id": rid, "g0": drive.gjson(p0), "g1": drive.gjson(p1), "sigma": [[perm[j], j] for j in range(n)],
                         "mirror": mirror, "file": "+".join(tr), "perm": perm})
    ok, bad = geom.validate_meta(recs) if recs else (set(), {})
    byid = {r["id"]: r for r in recs}
    for i, v in bad.items():
        r = byid[i]
        clause = next(c for c in ("renamable", "atoms", "bonds", "stereo", "valid") if not v[c])
        kind = "reflection" if r["mirror"] else ("permutation" if r["perm"] != sorted(r["perm"]) else "rigid-motion")
        rep.violation(f"C07|metamorphic|{r['file']}|{kind}|{clause}",
                      f"perception of {r['file']} changes under {kind}: clause '{clause}' of Obs_Meta fails", {"record": r, "verdict": v})
    cov = {
        "states": states, "transitions": gen,
        "traces_validated_against_impl": n_direct + n_whole + len(recs),
        "evaluations": n_direct + n_whole + len(recs),
        "distinct_nontrivial": len(classes_seen),
        "rule": "figure cases = (class, placement of ids on vertices, lattice rotation, reflection) from MC_Geom, each realised "
                "with per-element bond lengths, noise, random rigid motion and shuffled hand-over order; distinct_nontrivial = "
                "distinct expected descriptor classes (class, canonical spelling); metamorphic records are validated by TLC",
        "figure_cases": n_cases, "direct_calls": n_direct, "whole_molecule_calls": n_whole,
        "skipped_not_general_position": n_skip, "metamorphic_records": len(recs), "metamorphic_accepted": len(ok),
        "metamorphic_skipped": n_meta_skip, "xyz_files": [n for n, _ in corpus],
        "samples": samples[:3] or ["none"], "exhaustive": False,
    }
    return rep.finish("exploration", cov, [
        "handedness conventions of the chiral classes are read from the class docstrings (MC_Geom!FigParity)",
        "geometries on a bonding or planarity threshold are filtered out by the harness before the code is called and counted as skipped",
        "floating-point behaviour at thresholds is not judged",
    ])
